package main

import (
	"os"
	"fmt"
	"math/big"
	"go/types"
	"strings"

	"golang.org/x/tools/go/ssa"
)

type FuncResult struct {
	Target  target
	Name    string
	Ctx     *Ctx
	Err     string
	Trusted []string
	Inlined []string
	Spec    *FuncSpec
	kf      map[int]string // known-finding index -> Bool term (entry-state predicate)
	entry   *entryInfo
}

// entryInfo keeps what the replay generator needs: the symbolic inputs.
type entryInfo struct {
	fn     *ssa.Function
	params []SV
	names  []string
	heaps  map[string]string
	A0     string
}

// verifyFuncAll: one result per case of the function's case analysis (one in all when it has none).
func (p *Prog) verifyFuncAll(t target, findings []*Finding) []*FuncResult {
	sp := p.cs.Specs[t.pkg+"::"+t.ref]
	if sp == nil || len(sp.Cases) == 0 {
		return []*FuncResult{p.verifyFunc(t, findings, -1)}
	}
	var out []*FuncResult
	for i := range sp.Cases {
		if f := os.Getenv("VERIF_CASE"); f != "" && !strings.Contains(sp.Cases[i].Label, f) {
			continue // development aid: one case only
		}
		thoroughOnly := false
		for _, pr := range sp.Cases[i].Props {
			if pr == "THOROUGH" {
				thoroughOnly = true
			}
		}
		if thoroughOnly && p.tier != "thorough" {
			p.notes[fmt.Sprintf("%s: case %s is verified in the thorough tier only", shortPkg(t.pkg)+t.ref, sp.Cases[i].Label)] = true
			continue
		}
		out = append(out, p.verifyFunc(t, findings, i))
	}
	return out
}

func (p *Prog) verifyFunc(t target, findings []*Finding, caseIdx int) (fr *FuncResult) {
	fr = &FuncResult{Target: t, Name: shortPkg(t.pkg) + t.ref, kf: map[int]string{}}
	if sp := p.cs.Specs[t.pkg+"::"+t.ref]; sp != nil && caseIdx >= 0 {
		fr.Name += "@" + sp.Cases[caseIdx].Label
	}
	defer func() {
		if r := recover(); r != nil {
			if ee, ok := r.(engineError); ok {
				fr.Err = ee.msg
				return
			}
			panic(r)
		}
	}()
	fn := p.lookupFunc(t.pkg, t.ref)
	sp := p.cs.Specs[t.pkg+"::"+t.ref]
	fr.Spec = sp
	if fn == nil {
		fr.Err = fmt.Sprintf("contract target missing: %s in %s", t.ref, t.pkg)
		return
	}
	if fn.Blocks == nil {
		fr.Err = "no body: " + t.ref
		return
	}
	c := newCtx()
	fr.Ctx = c
	st := &State{pc: "true", vars: map[*ssa.Alloc]Val{}, heaps: map[string]string{}, regs: map[ssa.Value]Val{}, hist: new(big.Int)}
	for _, k := range heapKinds {
		st.heaps[k] = c.fresh("HP", "H0"+k)
	}
	st.A = c.fresh("Int", "A0")
	c.assume("true", fmt.Sprintf("(< 2000000 %s)", st.A))
	// the entry heap is closed: references stored in objects that exist at entry point to objects that exist at entry
	c.emit(fmt.Sprintf("(assert (forall ((o Int) (x Int)) (! (=> (< o %s) (< (select (select %s o) x) %s)) :pattern ((select (select %s o) x)))))", st.A, st.heaps["ref"], st.A, st.heaps["ref"]), false)
	e := &Exec{p: p, c: c, fn: fn, spec: sp, name: fr.Name, counters: map[string]int{}, trusted: map[string]bool{}, inlined: map[string]bool{},
		bounded: map[string]bool{}, closures: map[string]*closureVal{}}
	e.root = e
	e.A0 = st.A
	e.H0 = map[string]string{}
	for k, v := range st.heaps {
		e.H0[k] = v
	}
	e.props = p.funcProps(t.pkg, t.ref)
	var args Val
	ei := &entryInfo{fn: fn, heaps: e.H0, A0: st.A}
	for i, prm := range fn.Params {
		v := e.freshTyped(st, prm.Type(), "p_"+prm.Name())
		args = append(args, v...)
		ei.params = append(ei.params, SV{t: v, typ: prm.Type()})
		ei.names = append(ei.names, prm.Name())
		if i == 0 && fn.Signature.Recv() != nil {
			if _, ok := prm.Type().Underlying().(*types.Pointer); ok {
				c.assume("true", c.B("(not (= %s 0))", v[0]))
				c.nonNil[v[0]] = true
			}
		}
	}
	// a closure verified on its own: its captured variables are arbitrary, pairwise distinct cells
	if len(fn.FreeVars) > 0 {
		e.freeMap = map[string]SV{}
		var objs []string
		for _, fv := range fn.FreeVars {
			v := Val{c.fresh("Int", "fv_"+fv.Name()), "0"}
			st.regs[fv] = v
			c.assume("true", c.B("(and (< 0 %s) (< %s %s))", v[0], v[0], st.A))
			c.nonNil[v[0]] = true
			// the cell of a captured variable is reachable through this free variable only:
			// a tag of its own keeps it apart from every typed object
			c.assume("true", c.B("(= (tag %s) %d)", v[0], 9000+len(objs)))
			c.objTags[v[0]] = []int{9000 + len(objs)}
			for _, o := range objs {
				c.assume("true", c.B("(not (= %s %s))", o, v[0]))
			}
			objs = append(objs, v[0])
			e.freeMap[fv.Name()] = SV{t: v, typ: fv.Type()}
		}
	}
	fr.entry = ei
	e.args = args
	e.entry = st
	e.frameAll = sp == nil
	// requires + frame are evaluated in the entry state
	if sp != nil {
		env := e.envAt(st, false)
		env.hyp = true
		for _, rq := range sp.Requires {
			c.assume("true", env.evalBool(rq.Expr))
		}
		if caseIdx >= 0 {
			var alts []string
			for _, cs := range sp.Cases {
				alts = append(alts, env.evalBool(cs.Expr))
			}
			if caseIdx == 0 {
				// the cases cover the preconditions
				c.oblige(&Obl{Name: fr.Name + ":requires:cases-complete", Func: fr.Name, Kind: "requires", Label: "cases-complete", Props: e.props, Expect: "unsat"}, "true", c.B("(or %s false)", strings.Join(alts, " ")))
			}
			c.assume("true", alts[caseIdx])
		}
		for _, m := range sp.Modifies {
			e.frame = append(e.frame, env.modLoc(m))
		}
		for _, rv := range sp.Reveals {
			c.assume("true", env.reveal(rv))
		}
		// pin frame terms
	}
	for i, f := range findings {
		if f.When == "" || !strings.HasPrefix(f.Obligation, fr.Name+":") {
			continue
		}
		x, err := parseSpecExpr(f.When)
		if err != nil {
			fail("known finding %d: %v", i, err)
		}
		env := e.envAt(st, false)
		fr.kf[i] = env.evalBool(x)
	}
	// vacuity: the preconditions must be satisfiable
	c.oblige(&Obl{Name: fr.Name + ":vacuity:requires-satisfiable", Func: fr.Name, Kind: "vacuity", Label: "requires-satisfiable", Props: e.props, Expect: "sat"}, "true", "false")
	_, fin := e.run(st, args)
	if e.pruneDir != "" {
		if os.Getenv("VERIF_DEBUG") == "" {
			os.RemoveAll(e.pruneDir)
		}
		p.notes[fmt.Sprintf("%s: %d branches refuted by the solver under the preconditions were not executed (prune-paths)", fr.Name, e.pruned)] = true
	}
	if fin == nil {
		fail("%s: no reachable return", fr.Name)
	}
	if sp != nil {
		for _, en := range sp.Ensures {
			for _, r := range e.rets {
				vars := e.paramVars()
				bindResults(vars, fn.Signature.Results(), r.vals)
				env := &Env{x: e, fn: fn, cur: r.st, old: e.entry, vars: vars, free: e.freeMap}
				old := &Env{x: e, fn: fn, cur: e.entry, old: e.entry, vars: vars, free: e.freeMap}
				old.oldEnv = old
				env.oldEnv = old
				parts := splitConj(en.Expr)
				for pi, part := range parts {
					lbl := en.Label
					if len(parts) > 1 {
						lbl = fmt.Sprintf("%s/%d", en.Label, pi+1)
					}
					o := e.obl("ensures", lbl, nil)
					o.Pos = fmt.Sprintf("%s:%d", shortFile(en.File), en.Line)
					if len(en.Props) > 0 {
						o.Props = en.Props
					}
					o.Expect = "unsat"
					// per-return-site goals: one return's post is not assumed at another
					goal := env.evalBool(part)
					o.at = len(c.lines)
					o.goal = fmt.Sprintf("(=> %s %s)", r.st.pc, goal)
					o.ctx = c
					o.hist = r.st.hist
					o.Bounded = c.bounded
					c.skolemize(o, r.st.pc, goal)
					c.obls = append(c.obls, o)
				}
			}
		}
	}
	c.curHist = fin.hist
	c.oblige(&Obl{Name: fr.Name + ":vacuity:exit-reachable", Func: fr.Name, Kind: "vacuity", Label: "exit-reachable", Props: e.props, Expect: "sat"}, fin.pc, "false")
	for k := range e.trusted {
		fr.Trusted = append(fr.Trusted, k)
	}
	for k := range e.inlined {
		fr.Inlined = append(fr.Inlined, k)
	}
	return fr
}

func shortPkg(pkg string) string {
	if pkg == modPath {
		return ""
	}
	return strings.TrimPrefix(pkg, modPath+"/") + "."
}
