package main

import (
	"context"
	"fmt"
	"os"
	"math/big"
	"go/constant"
	"go/token"
	"go/types"
	"sort"
	"strconv"
	"strings"

	"golang.org/x/tools/go/ssa"
)

func (e *Exec) callArgs(s *State, site ssa.Instruction, cc *ssa.CallCommon) Val {
	if d, ok := site.(*ssa.Defer); ok {
		return s.regs[deferKey{d}]
	}
	var args Val
	for _, a := range cc.Args {
		args = append(args, e.val(s, a)...)
	}
	return args
}

func (e *Exec) setRes(s *State, res ssa.Value, v Val) {
	if res != nil {
		s.regs[res] = v
	}
}

func (e *Exec) freshTyped(s *State, t types.Type, hint string) Val {
	n := cells(t)
	out := make(Val, n)
	for i := range out {
		out[i] = e.c.fresh("Int", hint)
	}
	if tt, ok := t.(*types.Tuple); ok {
		off := 0
		for i := 0; i < tt.Len(); i++ {
			k := cells(tt.At(i).Type())
			e.assumeTyped(s, out[off:off+k], tt.At(i).Type())
			off += k
		}
	} else if n > 0 {
		e.assumeTyped(s, out, t)
	}
	return out
}

func (e *Exec) call(s *State, site ssa.Instruction, cc *ssa.CallCommon, res ssa.Value) {
	c := e.c
	if b, ok := cc.Value.(*ssa.Builtin); ok {
		e.builtin(s, site, cc, res, b)
		return
	}
	if cc.IsInvoke() {
		e.invoke(s, site, cc, res)
		return
	}
	callee := cc.StaticCallee()
	if callee == nil {
		// call through a function value: a closure created in this function, or an opaque function
		fv := e.val(s, cc.Value)[0]
		if cv, ok := e.root.closures[fv]; ok {
			if sp := e.p.specFor(cv.fn); sp != nil && !sp.Inline {
				// a closure under its own contract: its captured variables are named by the contract
				fm := map[string]SV{}
				for i, fvar := range cv.fn.FreeVars {
					fm[fvar.Name()] = SV{t: cv.bindings[i], typ: fvar.Type()}
				}
				e.callFree = fm
				e.contractCall(s, site, cv.fn, sp, e.callArgs(s, site, cc), res)
				e.callFree = nil
				return
			}
			e.inline(s, site, cv.fn, e.callArgs(s, site, cc), res, cv)
			return
		}
		if fn, ok := e.p.idFunc[fv]; ok {
			e.inline(s, site, fn, e.callArgs(s, site, cc), res, nil)
			return
		}
		// unknown function value (struct field such as timegen): result arbitrary, no heap effect assumed
		e.p.note("calls through opaque function values (e.g. packetizer.timegen, VP9Payloader.InitialPictureIDFn) return an arbitrary well-typed value and are assumed to have no effect on the verified memory")
		if res != nil {
			e.setRes(s, res, e.freshTyped(s, res.Type(), "dyn"))
		}
		return
	}
	full := callee.String()
	switch full {
	case "fmt.Errorf":
		id := c.fresh("Int", "err")
		c.assume("true", c.B("(< 100000 %s)", id))
		// %w: the wrapped error is the vararg at the verb's position
		if k, ok := cc.Args[0].(*ssa.Const); ok && k.Value != nil && k.Value.Kind() == constant.String {
			format := constant.StringVal(k.Value)
			if idx := wrapVerbIndex(format); idx >= 0 && len(cc.Args) > 1 {
				va := e.val(s, cc.Args[1]) // []any
				w := c.I("(select (select %s %s) (+ %s %d))", s.heaps["int"], va[0], va[1], idx)
				c.assume(s.pc, c.B("(= (wraps %s) %s)", id, w))
			} else {
				c.assume("true", c.B("(= (wraps %s) 0)", id))
			}
		}
		e.setRes(s, res, Val{id})
		return
	case "errors.New":
		id := c.fresh("Int", "err")
		c.assume("true", c.B("(and (< 100000 %s) (= (wraps %s) 0))", id, id))
		e.setRes(s, res, Val{id})
		return
	case "fmt.Sprintf", "fmt.Sprint":
		e.setRes(s, res, Val{"999", c.fresh("Int", "strlen")})
		return
	}
	sp := e.p.specFor(callee)
	args := e.callArgs(s, site, cc)
	if sp != nil && (sp.Trusted || !sp.Inline) && callee != e.root.fn && !e.root.forcedInline(callee) {
		e.contractCall(s, site, callee, sp, args, res)
		return
	}
	if callee.Blocks == nil {
		fail("%s: call to %s, which has neither a body nor a trusted contract", e.name, full)
	}
	e.inline(s, site, callee, args, res, nil)
}

func wrapVerbIndex(format string) int {
	idx := 0
	for i := 0; i < len(format); i++ {
		if format[i] != '%' {
			continue
		}
		i++
		if i >= len(format) {
			break
		}
		if format[i] == '%' {
			continue
		}
		for i < len(format) && strings.ContainsRune("+-# 0123456789.", rune(format[i])) {
			i++
		}
		if i < len(format) && format[i] == 'w' {
			return idx
		}
		idx++
	}
	return -1
}

func (e *Exec) builtin(s *State, site ssa.Instruction, cc *ssa.CallCommon, res ssa.Value, b *ssa.Builtin) {
	c := e.c
	switch b.Name() {
	case "len":
		a := e.val(s, cc.Args[0])
		if isString(cc.Args[0].Type()) {
			e.setRes(s, res, Val{a[1]})
		} else if at, ok := cc.Args[0].Type().Underlying().(*types.Array); ok {
			e.setRes(s, res, Val{fmt.Sprint(at.Len())})
		} else {
			e.setRes(s, res, Val{a[2]})
		}
	case "cap":
		e.setRes(s, res, Val{e.val(s, cc.Args[0])[3]})
	case "ssa:deferstack":
		e.setRes(s, res, zeroVal(res.Type()))
	case "append":
		sl := e.val(s, cc.Args[0])
		if len(cc.Args) == 1 {
			e.setRes(s, res, sl)
			return
		}
		if isString(cc.Args[1].Type()) {
			fail("%s: append of a string", e.name)
		}
		ad := e.val(s, cc.Args[1])
		et := cc.Args[0].Type().Underlying().(*types.Slice).Elem()
		st := cells(et)
		n := c.I("(+ %s %s)", sl[2], ad[2])
		inplace := c.B("(<= %s %s)", n, sl[3])
		doIn, doGrow := inplace != "false", inplace != "true"
		if doIn && doGrow && e.root.spec != nil && e.root.spec.PrunePaths {
			doIn, doGrow = e.feasible2(s, inplace, c.not(inplace))
		}
		if doIn && doGrow {
			c.caseConds = append(c.caseConds, caseCond{term: inplace, at: len(c.lines), visit: c.cur, lenTerm: sl[2]})
		}
		// appended elements: a variadic call passes a slice of a small array of
		// statically known length; those are written cell by cell (no quantifier)
		staticN := -1
		if sx, ok := cc.Args[1].(*ssa.Slice); ok && sx.Low == nil && sx.High == nil {
			if al, ok := sx.X.(*ssa.Alloc); ok {
				if at, ok := al.Type().(*types.Pointer).Elem().Underlying().(*types.Array); ok && at.Len() <= 4 {
					staticN = int(at.Len())
				}
			}
		}
		var elems []Val
		for i := 0; i < staticN; i++ {
			elems = append(elems, e.load(s, ad[0], c.I("(+ %s %d)", ad[1], i*st), et))
		}
		// in-place branch
		s1 := s.clone()
		s1.pc = c.and(s.pc, inplace)
		if !doIn {
			s1.pc = "false"
		}
		dbase := c.I("(+ %s (* %s %d))", sl[1], sl[2], st)
		ncells := c.I("(* %s %d)", ad[2], st)
		if doIn {
			e.frameCheck(s1, site, sl[0], dbase, c.I("(+ %s %s)", dbase, ncells))
			if staticN >= 0 {
				for i, ev := range elems {
					e.store(s1, nil, sl[0], c.I("(+ %s %d)", dbase, i*st), et, ev)
				}
			} else {
				e.copyRange(s1, et, sl[0], dbase, ad[0], ad[1], ncells)
			}
		}
		r1 := Val{sl[0], sl[1], n, sl[3]}
		if !doGrow {
			*s = *s1
			s.pc = c.and(s.pc, "true")
			e.setRes(s, res, r1)
			return
		}
		// growth branch: fresh object, capacity unconstrained above the new length
		s2 := s.clone()
		s2.pc = c.and(s.pc, c.not(inplace))
		nobj := e.alloc(s2, et)
		ncap := c.fresh("Int", "newcap")
		c.assume("true", c.B("(and (>= %s %s) (<= %s %s) (< 0 %s))", ncap, n, ncap, maxLen, ncap))
		oldCells := c.I("(* %s %d)", sl[2], st)
		e.copyRange(s2, et, nobj, "0", sl[0], sl[1], oldCells)
		if staticN >= 0 {
			for i, ev := range elems {
				e.store(s2, nil, nobj, c.I("(+ %s %d)", oldCells, i*st), et, ev)
			}
		} else {
			e.copyRange(s2, et, nobj, oldCells, ad[0], ad[1], ncells)
		}
		r2 := Val{nobj, "0", n, ncap}
		if !doIn {
			pc := s.pc
			*s = *s2
			s.pc = pc
			e.setRes(s, res, r2)
			return
		}
		m := e.merge([]edge{{cond: "true", st: s1}, {cond: "true", st: s2}})
		m.pc = s.pc
		*s = *m
		out := make(Val, 4)
		for i := range out {
			out[i] = c.ite("Int", inplace, r1[i], r2[i])
		}
		e.setRes(s, res, out)
	case "copy":
		d, sr := e.val(s, cc.Args[0]), e.val(s, cc.Args[1])
		if isString(cc.Args[1].Type()) {
			fail("%s: copy from a string", e.name)
		}
		et := cc.Args[0].Type().Underlying().(*types.Slice).Elem()
		n := c.I("(ite (<= %s %s) %s %s)", d[2], sr[2], d[2], sr[2])
		nc := c.I("(* %s %d)", n, cells(et))
		e.frameCheck(s, site, d[0], d[1], c.I("(+ %s %s)", d[1], nc))
		e.copyRange(s, et, d[0], d[1], sr[0], sr[1], nc)
		c.assume(s.pc, c.B("(and (<= 0 %s) (<= %s %s) (<= %s %s))", n, n, d[2], n, sr[2]))
		e.setRes(s, res, Val{n})
	case "ssa:wrapnilchk":
		e.setRes(s, res, e.val(s, cc.Args[0]))
	case "min", "max":
		a, b2 := e.val(s, cc.Args[0])[0], e.val(s, cc.Args[1])[0]
		op := "<="
		if b.Name() == "max" {
			op = ">="
		}
		e.setRes(s, res, Val{c.I("(ite (%s %s %s) %s %s)", op, a, b2, a, b2)})
	default:
		fail("%s: builtin %s", e.name, b.Name())
	}
}

// ---- interface method calls ----

func (e *Exec) invoke(s *State, site ssa.Instruction, cc *ssa.CallCommon, res ssa.Value) {
	m := cc.Method
	recvT := cc.Value.Type()
	name := ""
	if n, ok := recvT.(*types.Named); ok {
		name = n.Obj().Name()
	}
	pkg := ""
	if m.Pkg() != nil {
		pkg = m.Pkg().Path()
	}
	key := pkg + "::(" + name + ")." + m.Name()
	sp := e.p.cs.Specs[key]
	if sp == nil {
		sp = e.p.cs.Specs["::("+pkg+"."+name+")."+m.Name()]
	}
	if m.Name() == "Error" && isErrorType(recvT) {
		e.setRes(s, res, Val{"999", e.c.fresh("Int", "strlen")})
		return
	}
	iv := e.val(s, cc.Value)[0]
	// devirtualise when the dynamic type is known (interface built in this very function)
	if ct, ok := e.p.ifaceTyp[iv]; ok {
		ms := e.p.prog.MethodSets.MethodSet(ct)
		if sel := ms.Lookup(m.Pkg(), m.Name()); sel != nil {
			fn := e.p.prog.MethodValue(sel)
			args := append(Val{}, e.p.ifaceObj[iv]...)
			for _, a := range cc.Args {
				args = append(args, e.val(s, a)...)
			}
			if fsp := e.p.specFor(fn); fsp != nil && (fsp.Trusted || !fsp.Inline) && fn != e.root.fn {
				e.contractCall(s, site, fn, fsp, args, res)
			} else {
				e.inline(s, site, fn, args, res, nil)
			}
			return
		}
	}
	if _, isGlobalLoad := globalLoad(cc.Value); !isGlobalLoad {
		e.c.oblige(e.obl("safety", "nil-interface", site), s.pc, e.c.B("(not (= %s 0))", iv))
	} else {
		e.p.note("package-level interface variables (e.g. globalMathRandomGenerator) are assumed non-nil: they are initialised at package init and never reassigned")
	}
	if sp == nil {
		fail("%s: interface call %s without an interface contract", e.name, key)
	}
	args := append(Val{}, e.val(s, cc.Value)...)
	for _, a := range cc.Args {
		args = append(args, e.val(s, a)...)
	}
	sig := m.Type().(*types.Signature)
	names := []string{"self"}
	typs := []types.Type{recvT}
	for i := 0; i < sig.Params().Len(); i++ {
		names = append(names, sig.Params().At(i).Name())
		typs = append(typs, sig.Params().At(i).Type())
	}
	e.applyContract(s, site, key, sp, names, typs, args, sig.Results(), res, nil)
}

func globalLoad(v ssa.Value) (*ssa.Global, bool) {
	if u, ok := v.(*ssa.UnOp); ok {
		if g, ok := u.X.(*ssa.Global); ok {
			return g, true
		}
	}
	return nil, false
}

// ---- contract calls ----

func (e *Exec) contractCall(s *State, site ssa.Instruction, callee *ssa.Function, sp *FuncSpec, args Val, res ssa.Value) {
	var names []string
	var typs []types.Type
	for _, p := range callee.Params {
		names = append(names, p.Name())
		typs = append(typs, p.Type())
	}
	if sp.Trusted {
		e.root.trusted[callee.String()] = true
	}
	e.applyContract(s, site, callee.String(), sp, names, typs, args, callee.Signature.Results(), res, callee)
}

func bindResults(vars map[string]SV, results *types.Tuple, vals Val) {
	off := 0
	for i := 0; i < results.Len(); i++ {
		r := results.At(i)
		n := cells(r.Type())
		sv := SV{t: vals[off : off+n], typ: r.Type()}
		off += n
		if r.Name() != "" && r.Name() != "_" {
			vars[r.Name()] = sv
		}
		vars[fmt.Sprintf("result%d", i)] = sv
		if i == 0 {
			vars["result"] = sv
		}
		if i == results.Len()-1 && isErrorType(r.Type()) {
			if _, ok := vars["err"]; !ok {
				vars["err"] = sv
			}
		}
	}
}

func (e *Exec) applyContract(s *State, site ssa.Instruction, calleeName string, sp *FuncSpec, names []string, typs []types.Type, args Val, results *types.Tuple, res ssa.Value, callee *ssa.Function) {
	c := e.c
	vars := map[string]SV{}
	off := 0
	for i, n := range names {
		k := cells(typs[i])
		vars[n] = SV{t: args[off : off+k], typ: typs[i]}
		off += k
	}
	scopeFn := callee
	if scopeFn == nil {
		scopeFn = e.fn
		if f := e.p.anyFuncIn(sp.Pkg); f != nil {
			scopeFn = f
		}
	}
	pre := s.clone()
	preEnv := &Env{x: e, fn: scopeFn, cur: pre, old: pre, vars: vars, free: e.callFree}
	preEnv.oldEnv = preEnv
	short := calleeName
	if i := strings.LastIndex(short, "/"); i >= 0 {
		short = short[i+1:]
	}
	for i, rq := range sp.Requires {
		lbl := rq.Label
		if lbl == "" {
			lbl = fmt.Sprintf("pre%d", i)
		}
		c.oblige(e.obl("requires", "call("+short+"):"+lbl, site), s.pc, preEnv.evalBool(rq.Expr))
	}
	if sp.Pure {
		if res != nil {
			rv := e.freshTyped(s, res.Type(), "ret")
			e.setRes(s, res, rv)
			e.assumeEnsures(s, pre, sp, scopeFn, vars, results, rv)
		}
		return
	}
	// modifies: evaluated in the pre-state; must lie inside the caller's own frame.
	// Bounded locations (p.*, p.f) are havocked cell by cell with a store chain
	// (quantifier-free); unbounded ones (s[*]) get a fresh heap with a frame axiom.
	// Objects the callee allocates keep whatever the (never-read) pre-state held
	// at their addresses: nothing was ever assumed about unallocated cells.
	var qlocs []frameLoc
	qkinds := map[string]bool{}
	for _, m := range sp.Modifies {
		l := preEnv.modLoc(m)
		e.frameCheck(s, site, l.obj, l.lo, l.hi)
		if m.Kind == "all" || m.Kind == "cell" {
			for i, lf := range preEnv.modLeaves(m) {
				addr := l.lo
				if i > 0 {
					addr = c.I("(+ %s %d)", l.lo, i)
				}
				nv := c.fresh("Int", "mod")
				c.assume("true", c.inRange(nv, lf))
				h := s.heaps[lf.kind]
				s.heaps[lf.kind] = c.H("(store %s %s (store (select %s %s) %s %s))", h, l.obj, h, l.obj, addr, nv)
			}
			continue
		}
		qlocs = append(qlocs, l)
		for _, k := range preEnv.modKinds(m) {
			qkinds[k] = true
		}
	}
	allocs := !sp.NoAlloc
	if callee != nil && callee.Blocks != nil && !sp.Trusted {
		body := map[*ssa.BasicBlock]bool{}
		for _, b := range callee.Blocks {
			body[b] = true
		}
		allocs = e.modifiedIn(body).allocs
	}
	if allocs {
		s.A = c.fresh("Int", "callA")
		c.assume("true", c.B("(<= %s %s)", pre.A, s.A))
	}
	var ks []string
	for k := range qkinds {
		ks = append(ks, k)
	}
	sort.Strings(ks)
	for _, k := range ks {
		hp := c.fresh("HP", "Hcallpre"+k)
		c.emit(fmt.Sprintf("(assert (= %s %s))", hp, s.heaps[k]), true)
		nh := c.fresh("HP", "Hcall"+k)
		s.heaps[k] = nh
		var inf []string
		for _, f := range qlocs {
			// the region lies inside an object that carries the tag of the slice's element
			// type (a nil slice has no cells): objects with another tag are untouched,
			// which the solvers see without any reasoning about the bounds
			tagc := ""
			if f.typ != nil && f.elems {
				tagc = fmt.Sprintf(" (= (tag o) %d)", e.p.tagOf(f.typ))
			}
			inf = append(inf, fmt.Sprintf("(and (= o %s)%s (<= %s x) (< x %s))", f.obj, tagc, f.lo, f.hi))
		}
		c.emit(fmt.Sprintf("(assert (forall ((o Int) (x Int)) (! (=> (not (or %s false)) (= (select (select %s o) x) (select (select %s o) x))) :pattern ((select (select %s o) x)))))",
			strings.Join(inf, " "), nh, hp, nh), true)
	}
	var rv Val
	if results.Len() > 0 {
		rv = e.freshTyped(s, results, "ret")
	}
	e.setRes(s, res, rv)
	e.assumeEnsures(s, pre, sp, scopeFn, vars, results, rv)
}

func (e *Exec) assumeEnsures(s, pre *State, sp *FuncSpec, scopeFn *ssa.Function, vars map[string]SV, results *types.Tuple, rv Val) {
	c := e.c
	oldEnv := &Env{x: e, fn: scopeFn, cur: pre, old: pre, vars: vars, free: e.callFree}
	oldEnv.oldEnv = oldEnv
	pv := map[string]SV{}
	for k, v := range vars {
		pv[k] = v
	}
	bindResults(pv, results, rv)
	post := &Env{x: e, fn: scopeFn, cur: s, old: pre, vars: pv, oldEnv: oldEnv, hyp: true, free: e.callFree}
	for _, en := range sp.Ensures {
		// a clause with recorded findings does not hold on the recorded inputs:
		// callers may rely on it only outside them
		guard := "true"
		if scopeFn != nil && !sp.Trusted {
			base := shortPkg(sp.Pkg) + sp.Ref + ":ensures:" + en.Label
			for _, f := range e.p.findings {
				if f.Obligation != base {
					continue
				}
				if f.When == "" {
					guard = "false"
					break
				}
				x, err := parseSpecExpr(f.When)
				if err != nil {
					fail("known finding on %s: %v", base, err)
				}
				guard = c.and(guard, c.not(oldEnv.evalBool(x)))
			}
		}
		if guard == "false" {
			continue
		}
		cl := post.evalBool(en.Expr)
		if guard != "true" {
			cl = c.B("(=> %s %s)", guard, cl)
		}
		c.assume(s.pc, cl)
	}
}

func (p *Prog) anyFuncIn(pkg string) *ssa.Function {
	sp := p.pkgs[pkg]
	if sp == nil {
		return nil
	}
	var names []string
	for n, m := range sp.Members {
		if _, ok := m.(*ssa.Function); ok {
			names = append(names, n)
		}
	}
	sort.Strings(names)
	if len(names) == 0 {
		return nil
	}
	return sp.Members[names[0]].(*ssa.Function)
}

func (env *Env) modLoc(m *ModLoc) frameLoc {
	c := env.c()
	switch m.Kind {
	case "all":
		v := env.eval(m.Expr)
		pt, ok := v.typ.Underlying().(*types.Pointer)
		if !ok {
			specFail("modifies %s: pointer expected", m.Src)
		}
		return frameLoc{obj: v.t[0], lo: v.t[1], hi: c.I("(+ %s %d)", v.t[1], cells(pt.Elem())), typ: pt.Elem()}
	case "elems", "backing":
		v := env.eval(m.Expr)
		st, ok := v.typ.Underlying().(*types.Slice)
		if !ok {
			specFail("modifies %s: slice expected", m.Src)
		}
		n := v.t[2]
		if m.Kind == "backing" {
			n = v.t[3]
		}
		return frameLoc{obj: v.t[0], lo: v.t[1], hi: c.I("(+ %s (* %s %d))", v.t[1], n, cells(st.Elem())), typ: st.Elem(), elems: true}
	case "cell":
		if m.Expr.Op != "sel" {
			specFail("modifies %s: field selector expected", m.Src)
		}
		base := env.eval(m.Expr.Args[0])
		pt, ok := base.typ.Underlying().(*types.Pointer)
		if !ok {
			specFail("modifies %s: base must be a pointer", m.Src)
		}
		st := pt.Elem().Underlying().(*types.Struct)
		_, path := fieldPath(st, m.Expr.Name)
		if path == nil {
			specFail("modifies %s: no such field", m.Src)
		}
		off, ft := pathOffset(st, path)
		lo := c.I("(+ %s %d)", base.t[1], off)
		return frameLoc{obj: base.t[0], lo: lo, hi: c.I("(+ %s %d)", lo, cells(ft)), typ: pt.Elem()}
	}
	specFail("modifies %s", m.Src)
	return frameLoc{}
}

// modLeaves: the leaf cells of a bounded modifies location, in order.
func (env *Env) modLeaves(m *ModLoc) []leaf {
	switch m.Kind {
	case "all":
		return leaves(env.eval(m.Expr).typ.Underlying().(*types.Pointer).Elem())
	case "cell":
		base := env.eval(m.Expr.Args[0])
		st := base.typ.Underlying().(*types.Pointer).Elem().Underlying().(*types.Struct)
		_, path := fieldPath(st, m.Expr.Name)
		_, ft := pathOffset(st, path)
		return leaves(ft)
	}
	return nil
}

func (env *Env) modKinds(m *ModLoc) []string {
	set := map[string]bool{}
	add := func(t types.Type) {
		for _, l := range leaves(t) {
			set[l.kind] = true
		}
	}
	switch m.Kind {
	case "all":
		add(env.eval(m.Expr).typ.Underlying().(*types.Pointer).Elem())
	case "elems", "backing":
		add(env.eval(m.Expr).typ.Underlying().(*types.Slice).Elem())
	case "cell":
		base := env.eval(m.Expr.Args[0])
		st := base.typ.Underlying().(*types.Pointer).Elem().Underlying().(*types.Struct)
		_, path := fieldPath(st, m.Expr.Name)
		_, ft := pathOffset(st, path)
		add(ft)
	}
	var out []string
	for k := range set {
		out = append(out, k)
	}
	sort.Strings(out)
	return out
}

// ---- inlining ----

func (e *Exec) inline(s *State, site ssa.Instruction, callee *ssa.Function, args Val, res ssa.Value, cv *closureVal) {
	if e.depth > 8 {
		fail("%s: inlining too deep at %s", e.name, callee)
	}
	if callee.Blocks == nil {
		fail("%s: no body for %s", e.name, callee)
	}
	r := e.root
	if callee.Pkg == nil || !strings.HasPrefix(callee.Pkg.Pkg.Path(), modPath) || true {
		r.inlined[callee.String()] = true
	}
	sub := &Exec{p: e.p, c: e.c, fn: callee, spec: e.p.specForIn(callee, r.fn), root: r, name: e.name + ">" + callee.Name(), depth: e.depth + 1}
	sub.loopOrd = loopOrdinals(callee)
	if callee.Parent() != nil {
		sub.rootScoped = true
	} else if callee.Pkg != nil && r.fn.Pkg != nil {
		_, sub.rootScoped = e.p.cs.Specs[callee.Pkg.Pkg.Path()+"::"+r.fn.RelString(r.fn.Pkg.Pkg)+">"+callee.RelString(callee.Pkg.Pkg)]
	}
	st0 := s.clone()
	saved := s.regs
	st0.regs = map[ssa.Value]Val{}
	st0.outer = append(append([]map[ssa.Value]Val{}, s.outer...), saved)
	// scalar locals of the caller stay in vars (keyed by Alloc, no clash)
	if cv != nil {
		for i, fvar := range callee.FreeVars {
			st0.regs[fvar] = cv.bindings[i]
		}
	}
	rs, ns := sub.run(st0, args)
	// tail position (`return f(x)`): keep the callee's return paths apart instead of merging
	// them, so that the caller's postconditions are checked path by path
	if call, ok := site.(*ssa.Call); ok && ns != nil && len(sub.rets) > 1 && e.tailOnly(call) {
		blk := call.Block()
		after := false
		for _, r := range sub.rets {
			if r.st.pc == "false" {
				continue
			}
			ps := r.st.clone()
			ps.regs = map[ssa.Value]Val{}
			for k, v := range saved {
				ps.regs[k] = v
			}
			ps.regs[call] = r.vals
			e.enter(ps)
			after = false
			for _, in := range blk.Instrs {
				if in == ssa.Instruction(call) {
					after = true
					continue
				}
				if !after {
					continue
				}
				if x, ok := in.(*ssa.Return); ok {
					var vals Val
					for _, rv := range x.Results {
						vals = append(vals, e.val(ps, rv)...)
					}
					e.rets = append(e.rets, retPoint{st: ps.clone(), vals: vals, pos: x.Pos(), blk: blk.Index})
				} else {
					e.step(ps, in)
				}
			}
		}
		s.pc = "false"
		s.regs = saved
		if res != nil {
			s.regs[res] = rs
		}
		return
	}
	// split-returns: the callee's return paths are not merged; the rest of the calling
	// block is executed once per path and each path continues in a lane of its own
	if call, ok := site.(*ssa.Call); ok && ns != nil && sub.spec != nil && sub.spec.SplitReturns && e.curFlow != nil && len(sub.rets) > 1 && r.nlanes+len(sub.rets) < 64 {
		blk := call.Block()
		base := s.lane
		r.splitN++
		for ri, rp := range sub.rets {
			if rp.st.pc == "false" {
				continue
			}
			ps := rp.st.clone()
			ps.regs = map[ssa.Value]Val{}
			for k, v := range saved {
				ps.regs[k] = v
			}
			ps.outer = s.outer
			if res != nil {
				ps.regs[res] = rp.vals
			}
			ps.lane = fmt.Sprintf("%s/s%dr%d", base, r.splitN, ri)
			r.nlanes++
			e.enter(ps)
			after := false
			for _, in := range blk.Instrs {
				if in == ssa.Instruction(call) {
					after = true
					continue
				}
				if !after || ps.pc == "false" {
					continue
				}
				switch x := in.(type) {
				case *ssa.Return:
					var vals Val
					for _, rv := range x.Results {
						vals = append(vals, e.val(ps, rv)...)
					}
					e.rets = append(e.rets, retPoint{st: ps.clone(), vals: vals, pos: x.Pos(), blk: blk.Index})
				case *ssa.If:
					cond := e.intToBool(e.val(ps, x.Cond)[0])
					e.curFlow(blk, blk.Succs[0], cond, ps)
					e.curFlow(blk, blk.Succs[1], e.c.not(cond), ps)
				case *ssa.Jump:
					e.curFlow(blk, blk.Succs[0], "true", ps)
				default:
					e.step(ps, in)
				}
			}
		}
		s.pc = "false"
		s.regs = saved
		if res != nil {
			s.regs[res] = rs
		}
		e.blockDone = blk
		return
	}
	if ns == nil {
		// callee never returns normally on any path: the continuation is unreachable
		s.pc = "false"
		if res != nil {
			s.regs[res] = zeroVal(res.Type())
		}
		return
	}
	pc := s.pc
	*s = *ns
	_ = pc
	s.regs = saved
	if res != nil {
		s.regs[res] = rs
	}
	// back in the caller: later lines belong to a fresh visit that follows everything the callee did
	e.enter(s)
}

// ---- the CFG driver ----

func (e *Exec) loopSpec(b *ssa.BasicBlock) *LoopSpec {
	if e.spec == nil {
		return nil
	}
	return e.spec.Loops[e.loopOrd[b]]
}

type loopKey struct {
	b    *ssa.BasicBlock
	lane string
}

type loopInfo struct {
	measure string
	preA    string
}

func (e *Exec) envAt(s *State, locals bool) *Env {
	env := &Env{x: e, fn: e.fn, cur: s, old: e.entry, vars: e.paramVars(), locals: locals, free: e.freeMap}
	old := &Env{x: e, fn: e.fn, cur: e.entry, old: e.entry, vars: env.vars, free: e.freeMap}
	if e != e.root && e.rootScoped {
		// a callee that only exists inside the root (a closure, or a helper with a
		// "Root>callee" contract): old() is the root's entry state, names are the root's
		r := e.root
		old = &Env{x: r, fn: r.fn, cur: r.entry, old: r.entry, vars: r.paramVars()}
		env.old = r.entry
	}
	old.oldEnv = old
	env.oldEnv = old
	return env
}

func (e *Exec) paramVars() map[string]SV {
	vars := map[string]SV{}
	off := 0
	for _, p := range e.fn.Params {
		n := cells(p.Type())
		vars[p.Name()] = SV{t: e.args[off : off+n], typ: p.Type()}
		off += n
	}
	return vars
}

func (e *Exec) run(entry *State, args Val) (Val, *State) {
	c := e.c
	fn := e.fn
	e.args = args
	if e.loopOrd == nil {
		e.loopOrd = loopOrdinals(fn)
	}
	st0 := entry
	off := 0
	for _, p := range fn.Params {
		n := cells(p.Type())
		st0.regs[p] = args[off : off+n]
		off += n
	}
	e.entry = st0.clone()
	incoming := map[*ssa.BasicBlock][]edge{}
	incoming[fn.Blocks[0]] = []edge{{cond: "true", st: st0}}
	e.loops = map[*ssa.BasicBlock]*loopInfo{}
	e.doneBlk = map[*ssa.BasicBlock]bool{}
	var flow func(from, to *ssa.BasicBlock, cond string, s *State)
	flow = func(from, to *ssa.BasicBlock, cond string, s *State) {
		if to.Dominates(from) && isLoopHeader(to) { // back-edge of a loop cut by its invariant
			e.backEdge(from, to, cond, s)
			return
		}
		incoming[to] = append(incoming[to], edge{from: from, cond: cond, st: s.clone()})
	}
	e.execRegion(rpo(fn), incoming, flow, nil)
	if len(e.rets) == 0 {
		return nil, nil
	}
	var es []edge
	for _, r := range e.rets {
		es = append(es, edge{cond: "true", st: r.st})
	}
	fin := e.merge(es)
	n := len(e.rets[0].vals)
	out := make(Val, n)
	for j := 0; j < n; j++ {
		cur := e.rets[len(e.rets)-1].vals[j]
		for i := len(e.rets) - 2; i >= 0; i-- {
			cur = c.ite("Int", e.rets[i].st.pc, e.rets[i].vals[j], cur)
		}
		out[j] = cur
	}
	return out, fin
}

// autoInvs: invariants every range loop has (two-sided bound on the hidden index).
func (e *Exec) autoInvs(s *State, header *ssa.BasicBlock, pc, kind string, ord int) {
	c := e.c
	for _, a := range e.rangeIndexVars(s, header) {
		v := s.vars[a][0]
		c.oblige(e.obl(kind, fmt.Sprintf("loop%d:auto-rangeindex", ord), nil), pc, c.B("(and (<= (- 1) %s) (< %s %s))", v, v, maxLen))
	}
}

func (e *Exec) assumeAutoInvs(s *State, header *ssa.BasicBlock) {
	c := e.c
	for _, a := range e.rangeIndexVars(s, header) {
		v := s.vars[a][0]
		c.assume(s.pc, c.B("(and (<= (- 1) %s) (< %s %s))", v, v, maxLen))
	}
}

func (e *Exec) rangeIndexVars(s *State, header *ssa.BasicBlock) []*ssa.Alloc {
	var out []*ssa.Alloc
	if header.Comment != "rangeindex.loop" {
		return nil
	}
	body := naturalLoop(header)
	seen := map[*ssa.Alloc]bool{}
	for _, in := range header.Instrs {
		if st, ok := in.(*ssa.Store); ok {
			if a, ok := st.Addr.(*ssa.Alloc); ok && a.Comment == "rangeindex" && !seen[a] {
				if _, live := s.vars[a]; live {
					seen[a] = true
					out = append(out, a)
				}
			}
		}
	}
	_ = body
	return out
}

// guardCheck: accesses to fields declared `guarded ... by <mutex>` need the lock (C07).
func (e *Exec) guardCheck(s *State, addr ssa.Value, in ssa.Instruction) {
	fa, ok := addr.(*ssa.FieldAddr)
	if !ok || len(e.p.cs.Guards) == 0 {
		return
	}
	pt := fa.X.Type().Underlying().(*types.Pointer).Elem()
	named, ok := pt.(*types.Named)
	if !ok {
		return
	}
	st := named.Underlying().(*types.Struct)
	fname := st.Field(fa.Field).Name()
	tname := named.Obj().Pkg().Path() + "." + named.Obj().Name()
	for _, g := range e.p.cs.Guards {
		if g.Type != tname || g.Field != fname {
			continue
		}
		c := e.c
		p := e.val(s, fa.X)
		_, path := fieldPath(st, g.Mutex)
		moff, _ := pathOffset(st, path)
		held := c.B("(= (select (select %s %s) (+ %s %d)) 1)", s.heaps["i32"], p[0], p[1], moff)
		o := e.obl("guard", g.Field, in)
		if len(g.Props) > 0 {
			o.Props = g.Props
		}
		// exempt: objects allocated by this very call (not yet shared)
		c.oblige(o, s.pc, c.B("(or (<= %s %s) %s)", e.root.A0, p[0], held))
	}
}

// obligeClause checks a labelled clause conjunct by conjunct.
func (e *Exec) obligeClause(kind, label string, cl *Clause, pc string, env *Env) {
	parts := splitConj(cl.Expr)
	for pi, part := range parts {
		lbl := label
		if len(parts) > 1 {
			lbl = fmt.Sprintf("%s/%d", label, pi+1)
		}
		o := e.obl(kind, lbl, nil)
		o.Pos = fmt.Sprintf("%s:%d", shortFile(cl.File), cl.Line)
		if len(cl.Props) > 0 {
			o.Props = cl.Props
		}
		e.c.oblige(o, pc, env.evalBool(part))
	}
}

func hasPhi(b *ssa.BasicBlock) bool {
	if len(b.Instrs) == 0 {
		return false
	}
	_, ok := b.Instrs[0].(*ssa.Phi)
	return ok
}

// simpleBlock: only loads, defers and the return (no calls, no stores): cheap to duplicate.
func simpleBlock(b *ssa.BasicBlock) bool {
	for _, in := range b.Instrs {
		switch x := in.(type) {
		case *ssa.UnOp, *ssa.Return, *ssa.DebugRef, *ssa.Extract, *ssa.FieldAddr, *ssa.ChangeType:
		case *ssa.Store:
			if a, ok := x.Addr.(*ssa.Alloc); !ok || !isScalarLocal(a) {
				return false
			}
		case *ssa.RunDefers:
		case *ssa.Call:
			_ = x
			return false
		default:
			return false
		}
	}
	return true
}

// enter opens a new block visit for state s: lines emitted from now on are
// scoped to it, and s (with every state derived from it) has it in its history.
func (e *Exec) enter(s *State) {
	c := e.c
	v := c.newVisit()
	h := new(big.Int)
	if s.hist != nil {
		h.Set(s.hist)
	}
	h.SetBit(h, int(v), 1)
	s.hist = h
	c.cur = v
	c.curHist = h
}

// backEdge: obligations at the back-edge of a loop that is cut by its invariant.
func (e *Exec) backEdge(from, to *ssa.BasicBlock, cond string, s *State) {
	c := e.c
	e.invHeader = to
	defer func() { e.invHeader = nil }()
	pc := c.and(s.pc, cond)
	ls := e.loopSpec(to)
	ord := e.loopOrd[to]
	if ls != nil {
		st := s.clone()
		st.pc = pc
		env := e.envAt(st, true)
		for _, inv := range ls.Invs {
			e.obligeClause("inv-step", fmt.Sprintf("loop%d:%s", ord, inv.Label), inv, pc, env)
		}
		if ls.Decreases != nil {
			m := env.evalInt(ls.Decreases)
			li := e.loopInfoFor(to, s.lane)
			c.oblige(e.obl("decreases", fmt.Sprintf("loop%d", ord), nil), pc, c.B("(and (<= 0 %s) (< %s %s))", li.measure, m, li.measure))
		}
	}
	e.autoInvs(s, to, pc, "inv-step", ord)
}

// unrollFor: how often the loop headed by b is unrolled (0: cut by invariant).
func (e *Exec) forcedInline(callee *ssa.Function) bool {
	if e.spec == nil {
		return false
	}
	for _, n := range e.spec.InlineCalls {
		if n == callee.Name() || (callee.Pkg != nil && n == callee.RelString(callee.Pkg.Pkg)) {
			return true
		}
	}
	return false
}

func (e *Exec) unrollFor(b *ssa.BasicBlock) (int, bool) {
	if e != e.root && e.root.spec != nil && e.root.spec.Unroll > 0 && e.root.forcedInline(e.fn) {
		if only := e.root.spec.UnrollLoops; len(only) == 0 || only[fmt.Sprintf("%s:%d", e.fn.Name(), e.loopOrd[b])] {
			return e.root.spec.Unroll, e.root.spec.UnrollComplete // a lemma that executes this callee's body with its own bound
		}
	}
	if ls := e.loopSpec(b); ls != nil {
		if ls.Unroll > 0 {
			return ls.Unroll, ls.Complete
		}
		if len(ls.Invs) > 0 {
			return 0, false
		}
	}
	if e.spec != nil && e.spec.Unroll > 0 {
		return e.spec.Unroll, e.spec.UnrollComplete
	}
	if e.root.spec != nil && e.root.spec.Unroll > 0 && e != e.root && e.loopSpec(b) == nil {
		return e.root.spec.Unroll, false // inlined callee without its own loop contract, in a bounded lemma
	}
	return 0, false
}

// unroll executes the loop headed by b up to k times. Paths that would need a
// further iteration are dropped (bounded: every later obligation of the
// function is labelled so) or, with `complete`, must be shown infeasible.
func (e *Exec) unroll(b *ssa.BasicBlock, ins []edge, k int, complete bool, outer func(from, to *ssa.BasicBlock, cond string, s *State)) {
	c := e.c
	body := naturalLoop(b)
	var order []*ssa.BasicBlock
	for _, blk := range rpo(e.fn) {
		if body[blk] {
			order = append(order, blk)
		}
	}
	ord := e.loopOrd[b]
	cur := ins
	curIt := 0
	laneSeen := map[string]bool{}
	defer func() { e.root.nlanes += len(laneSeen) }()
	for it := 0; len(cur) > 0; it++ {
		if it == k {
			for _, ed := range cur {
				pc := c.and(ed.st.pc, ed.cond)
				if complete {
					c.curHist = ed.st.hist
					c.oblige(e.obl("unwind", fmt.Sprintf("loop%d", ord), nil), pc, "false")
				}
			}
			if !complete {
				e.root.boundedBy = append(e.root.boundedBy, fmt.Sprintf("%s loop%d unrolled %d times", e.name, ord, k))
				c.bounded = fmt.Sprintf("bounded: %s", strings.Join(e.root.boundedBy, "; "))
			}
			break
		}
		// invariants written on an unrolled loop are intermediate lemmas: checked, then
		// assumed, at every visit of the header (no havoc: the state is exact)
		if ls := e.loopSpec(b); ls != nil && len(ls.Invs) > 0 {
			ms := e.merge(cur)
			if ms.pc != "false" {
				e.enter(ms)
				e.invHeader = b
				env := e.envAt(ms, true)
				for _, inv := range ls.Invs {
					e.obligeClause("inv-unrolled", fmt.Sprintf("loop%d:%s", ord, inv.Label), inv, ms.pc, env)
				}
				e.invHeader = nil
				cur = []edge{{from: cur[0].from, cond: "true", st: ms}}
			}
		}
		local := map[*ssa.BasicBlock][]edge{b: cur}
		var next []edge
		flowIn := func(from, to *ssa.BasicBlock, cond string, s *State) {
			switch {
			case to == b && body[from]:
				next = append(next, edge{from: from, cond: cond, st: s.clone()})
			case body[to]:
				if to.Dominates(from) && isLoopHeader(to) {
					if kk, _ := e.unrollFor(to); kk == 0 {
						e.backEdge(from, to, cond, s) // inner loop cut by its invariant
						return
					}
				}
				local[to] = append(local[to], edge{from: from, cond: cond, st: s.clone()})
			default:
				// leaving the loop after `it` iterations: a lane of its own (no merge with
				// the exits of other iterations) while the lane budget lasts
				if e.root.nlanes < 48 {
					s2 := s.clone()
					s2.lane = fmt.Sprintf("%s/%d.%d", s.lane, ord, curIt)
					laneSeen[s2.lane] = true
					outer(from, to, cond, s2)
				} else {
					outer(from, to, cond, s)
				}
			}
		}
		curIt = it
		for blk := range body {
			delete(e.doneBlk, blk)
		}
		e.execRegion(order, local, flowIn, b)
		cur = next
	}
	for blk := range body {
		e.doneBlk[blk] = true
	}
}

// execRegion runs the blocks of `order` (reverse post-order) from the given incoming edges.
func (e *Exec) execRegion(order []*ssa.BasicBlock, incoming map[*ssa.BasicBlock][]edge, flow func(from, to *ssa.BasicBlock, cond string, s *State), unrolling *ssa.BasicBlock) {
	c := e.c
	prevFlow := e.curFlow
	e.curFlow = flow
	defer func() { e.curFlow = prevFlow }()
	for _, b := range order {
		if e.doneBlk[b] {
			continue
		}
		all := incoming[b]
		if len(all) == 0 {
			continue
		}
		// one pass per lane
		var lanes []string
		byLane := map[string][]edge{}
		for _, ed := range all {
			if _, ok := byLane[ed.st.lane]; !ok {
				lanes = append(lanes, ed.st.lane)
			}
			byLane[ed.st.lane] = append(byLane[ed.st.lane], ed)
		}
		sort.Strings(lanes)
		if len(lanes) > 1 {
			for _, ln := range lanes {
				sub := map[*ssa.BasicBlock][]edge{b: byLane[ln]}
				e.execRegion([]*ssa.BasicBlock{b}, sub, flow, unrolling)
				delete(e.doneBlk, b)
			}
			if isLoopHeader(b) && b != unrolling {
				if k, _ := e.unrollFor(b); k > 0 {
					for blk := range naturalLoop(b) {
						e.doneBlk[blk] = true
					}
				}
			}
			continue
		}
		ins := all
		if isLoopHeader(b) && b != unrolling {
			if k, complete := e.unrollFor(b); k > 0 {
				e.unroll(b, ins, k, complete, flow)
				continue
			}
		}
		// a block that only returns is executed once per incoming edge: the
		// postconditions are then checked per path instead of on a merged state
		if _, isRet := b.Instrs[len(b.Instrs)-1].(*ssa.Return); isRet && len(ins) > 1 && len(ins) <= 16 && !isLoopHeader(b) && !hasPhi(b) && (simpleBlock(b) || len(b.Instrs) <= 40) {
			for _, ed := range ins {
				s := e.merge([]edge{ed})
				if s.pc == "false" {
					continue
				}
				e.enter(s)
				for _, in := range b.Instrs {
					if x, ok := in.(*ssa.Return); ok {
						if s.pc == "false" {
							break
						}
						var vals Val
						for _, r := range x.Results {
							vals = append(vals, e.val(s, r)...)
						}
						e.rets = append(e.rets, retPoint{st: s.clone(), vals: vals, pos: x.Pos(), blk: b.Index})
					} else {
						e.step(s, in)
					}
				}
			}
			continue
		}
		s := e.merge(ins)
		if s.pc == "false" {
			continue
		}
		e.enter(s)
		if isLoopHeader(b) && b != unrolling {
			e.loopHead(b, s)
		}
		// phis
		for _, in := range b.Instrs {
			phi, ok := in.(*ssa.Phi)
			if !ok {
				break
			}
			n := cells(phi.Type())
			r := make(Val, n)
			for j := 0; j < n; j++ {
				cur, first := "0", true
				for i, p := range b.Preds {
					for k := range ins {
						if ins[k].from != p {
							continue
						}
						v := e.val(ins[k].st, phi.Edges[i])[j]
						if first {
							cur, first = v, false
						} else {
							cur = c.ite("Int", c.and(ins[k].st.pc, ins[k].cond), v, cur)
						}
					}
				}
				r[j] = cur
			}
			s.regs[phi] = r
		}
		for _, in := range b.Instrs {
			if e.blockDone == b {
				e.blockDone = nil
				break // a split-returns call already ran the rest of this block path by path
			}
			switch x := in.(type) {
			case *ssa.Phi:
				continue
			case *ssa.If:
				cond := e.intToBool(e.val(s, x.Cond)[0])
				if (e == e.root || e.rootScoped) && e.spec != nil && e.spec.SplitPaths && unrolling == nil && e.root.nlanes < 48 && !endsInReturn(b.Succs[0]) && !endsInReturn(b.Succs[1]) {
					// path-wise execution: the two sides are never merged again
					base := s.lane
					s.lane = fmt.Sprintf("%s/b%dt", base, b.Index)
					flow(b, b.Succs[0], cond, s)
					s.lane = fmt.Sprintf("%s/b%df", base, b.Index)
					flow(b, b.Succs[1], c.not(cond), s)
					s.lane = base
					e.root.nlanes++
					continue
				}
				if e.root.spec != nil && e.root.spec.PrunePaths {
					e.root.prunePos = e.p.fset.Position(x.Cond.Pos()).String()
					f0, f1 := e.feasible2(s, cond, c.not(cond))
					if f0 {
						flow(b, b.Succs[0], cond, s)
					}
					if f1 {
						flow(b, b.Succs[1], c.not(cond), s)
					}
					continue
				}
				flow(b, b.Succs[0], cond, s)
				flow(b, b.Succs[1], c.not(cond), s)
			case *ssa.Jump:
				flow(b, b.Succs[0], "true", s)
			case *ssa.Return:
				var vals Val
				for _, r := range x.Results {
					vals = append(vals, e.val(s, r)...)
				}
				if s.pc != "false" {
					e.rets = append(e.rets, retPoint{st: s.clone(), vals: vals, pos: x.Pos(), blk: b.Index})
				}
			default:
				e.step(s, in)
			}
		}
	}
}

// loopHead: a loop cut by its invariant: check it on entry, havoc, assume it.
func (e *Exec) loopHead(b *ssa.BasicBlock, s *State) {
	c := e.c
	e.invHeader = b
	defer func() { e.invHeader = nil }()
	ord := e.loopOrd[b]
	ls := e.loopSpec(b)
	body := naturalLoop(b)
	mods := e.modifiedIn(body)
	if ls != nil {
		env := e.envAt(s, true)
		for _, inv := range ls.Invs {
			e.obligeClause("inv-init", fmt.Sprintf("loop%d:%s", ord, inv.Label), inv, s.pc, env)
		}
	}
	e.autoInvs(s, b, s.pc, "inv-init", ord)
	// havoc what the loop may change
	var hv []*ssa.Alloc
	for a := range mods.vars {
		if _, live := s.vars[a]; live {
			hv = append(hv, a)
		}
	}
	sort.Slice(hv, func(i, j int) bool { return hv[i].Pos() < hv[j].Pos() })
	for _, a := range hv {
		t := a.Type().(*types.Pointer).Elem()
		nv := make(Val, cells(t))
		for i := range nv {
			nv[i] = c.fresh("Int", "hv_"+a.Comment)
		}
		s.vars[a] = nv
	}
	li := &loopInfo{preA: s.A}
	e.loops[b] = li
	if e.loopsByLane == nil {
		e.loopsByLane = map[loopKey]*loopInfo{}
	}
	e.loopsByLane[loopKey{b, s.lane}] = li
	keep := e.unwrittenPrivate(s, body)
	preHeaps := map[string]string{}
	for k, v := range s.heaps {
		preHeaps[k] = v
	}
	narrowed, ok := e.narrowFrame(s, body)
	if os.Getenv("VERIF_DEBUG") != "" {
		fmt.Fprintf(os.Stderr, "narrowFrame %s loop@%s: ok=%v %v (frame %v)\n", e.name, e.p.fset.Position(b.Instrs[0].Pos()), ok, narrowed, e.root.frame)
	}
	e.havocHeaps(s, mods.kinds, mods.allocs, narrowed, ok)
	e.lastNarrow = nil
	// locals whose address never escapes and that the loop does not write keep their contents
	for _, a := range keep {
		obj := s.regs[a][0]
		for k := range mods.kinds {
			c.assume(s.pc, c.B("(= (select %s %s) (select %s %s))", s.heaps[k], obj, preHeaps[k], obj))
		}
	}
	for _, a := range hv {
		e.assumeTyped(s, s.vars[a], a.Type().(*types.Pointer).Elem())
	}
	e.assumeAutoInvs(s, b)
	if ls != nil {
		env := e.envAt(s, true)
		env.hyp = true
		for _, inv := range ls.Invs {
			c.assume(s.pc, env.evalBool(inv.Expr))
		}
		if ls.Decreases != nil {
			li.measure = env.evalInt(ls.Decreases)
		}
	}
}

// tailOnly: after the call its block only extracts results and returns.
func (e *Exec) tailOnly(call *ssa.Call) bool {
	blk := call.Block()
	if _, ok := blk.Instrs[len(blk.Instrs)-1].(*ssa.Return); !ok {
		return false
	}
	after := false
	for _, in := range blk.Instrs {
		if in == ssa.Instruction(call) {
			after = true
			continue
		}
		if !after {
			continue
		}
		switch x := in.(type) {
		case *ssa.Extract, *ssa.Return, *ssa.DebugRef, *ssa.RunDefers, *ssa.BinOp, *ssa.Convert, *ssa.ChangeType, *ssa.FieldAddr:
		case *ssa.Store:
			if a, ok := x.Addr.(*ssa.Alloc); !ok || !isScalarLocal(a) {
				return false
			}
		case *ssa.UnOp:
		default:
			return false
		}
	}
	return len(e.defers) == 0
}

// loopInfoFor: the bookkeeping of the loop head visit this state descends from
// (lanes opened inside the loop body extend the head's lane).
func (e *Exec) loopInfoFor(b *ssa.BasicBlock, lane string) *loopInfo {
	for {
		if li, ok := e.loopsByLane[loopKey{b, lane}]; ok {
			return li
		}
		i := strings.LastIndex(lane, "/")
		if i < 0 {
			break
		}
		lane = lane[:i]
	}
	return e.loops[b]
}

// narrowFrame: which part of the root's modifies clause a loop can actually
// write. Stores through a field path rooted at a value defined before the loop
// name their cells exactly; every other write in the loop goes through a slice
// element or a value computed in the loop, whose object carries the tag of its
// static element type - it cannot be a frame region whose objects carry other
// tags (Go type safety). Loops that call non-builtin functions are not narrowed.
func (e *Exec) narrowFrame(s *State, body map[*ssa.BasicBlock]bool) ([]frameLoc, bool) {
	r := e.root
	e.lastNarrow = nil
	if r.frameAll {
		return nil, false
	}
	c := e.c
	type region = narrowRegion
	var known []region
	var unknown []types.Type
	addUnknown := func(t types.Type) { unknown = append(unknown, t) }
	for b := range body {
		for _, in := range b.Instrs {
			switch x := in.(type) {
			case *ssa.Store:
				if a, ok := x.Addr.(*ssa.Alloc); ok && isScalarLocal(a) {
					continue
				}
				// walk a FieldAddr chain down to its root
				off := 0
				var cur ssa.Value = x.Addr
				okChain := true
				for {
					fa, isFA := cur.(*ssa.FieldAddr)
					if !isFA {
						break
					}
					st := fa.X.Type().Underlying().(*types.Pointer).Elem().Underlying().(*types.Struct)
					off += fieldOffset(st, fa.Field)
					cur = fa.X
				}
				rootVal, have := s.regs[cur]
				if instr, isInstr := cur.(ssa.Instruction); isInstr && body[instr.Block()] {
					have = false // computed inside the loop
					// ... unless it is a load of a local the loop never assigns (NaiveForm spills parameters)
					if ld, ok := cur.(*ssa.UnOp); ok && ld.Op == token.MUL {
						if a, ok := ld.X.(*ssa.Alloc); ok && isScalarLocal(a) && !storedIn(body, a) {
							if v, ok := s.vars[a]; ok {
								rootVal, have = v, true
							}
						}
					}
				}
				if al, isAlloc := cur.(*ssa.Alloc); isAlloc {
					// a local object of this function: never part of the caller-visible frame,
					// but an object like any other for the "objects that exist at loop entry keep
					// their cells" axiom: its written cells are named
					if rv, ok := s.regs[al]; ok && rv != nil && len(rv) >= 2 && !body[al.Block()] {
						lo := c.add(rv[1], fmt.Sprint(off))
						known = append(known, region{rv[0], lo, c.add(lo, fmt.Sprint(cells(x.Val.Type())))})
					}
					continue
				}
				if !have || rootVal == nil || len(rootVal) < 2 || cur == x.Addr {
					okChain = false
				}
				if okChain {
					lo := c.add(rootVal[1], fmt.Sprint(off))
					known = append(known, region{rootVal[0], lo, c.add(lo, fmt.Sprint(cells(x.Val.Type())))})
				} else {
					// element of a slice / pointer computed in the loop: tag of the pointee
					pt := x.Addr.Type().Underlying().(*types.Pointer).Elem()
					if ia, ok := x.Addr.(*ssa.IndexAddr); ok {
						switch xt := ia.X.Type().Underlying().(type) {
						case *types.Slice:
							pt = xt.Elem()
						case *types.Pointer:
							pt = xt.Elem().Underlying().(*types.Array).Elem()
						}
					} else {
						if os.Getenv("VERIF_DEBUG") != "" {
							fmt.Fprintf(os.Stderr, "narrowFrame: unknown store %v (addr %v, root %v have=%v)\n", x, x.Addr, cur, have)
						}
						return nil, false
					}
					addUnknown(pt)
				}
			case *ssa.Call:
				cc := x.Common()
				if bi, ok := cc.Value.(*ssa.Builtin); ok {
					if bi.Name() == "append" || bi.Name() == "copy" {
						addUnknown(cc.Args[0].Type().Underlying().(*types.Slice).Elem())
					}
					continue
				}
				if callee := cc.StaticCallee(); callee != nil {
					if fsp := e.p.specFor(callee); fsp != nil && !fsp.Inline && len(fsp.Modifies) == 0 {
						continue // writes nothing that existed before the call (its contract says so and is checked or trusted)
					}
				}
				if os.Getenv("VERIF_DEBUG") != "" {
					fmt.Fprintf(os.Stderr, "narrowFrame: call %v\n", x)
				}
				return nil, false
			case *ssa.Defer, *ssa.Go:
				return nil, false
			}
		}
	}
	// objects that exist at loop entry and cannot be the target of an element write of
	// one of the loop's slice types keep every cell the loop does not name
	excl := map[int]bool{}
	for _, E := range unknown {
		excl[e.p.tagOf(E)] = true
		for _, S := range e.p.structs {
			if containsArrayOf(S, E, 0) {
				excl[e.p.tagOf(S)] = true
			}
		}
	}
	ni := &narrowInfo{known: known}
	for t := range excl {
		ni.exclTags = append(ni.exclTags, t)
	}
	sort.Ints(ni.exclTags)
	e.lastNarrow = ni
	if len(r.frame) == 0 {
		return nil, false
	}
	var out []frameLoc
	for _, f := range r.frame {
		if f.typ == nil {
			return nil, false
		}
		// can an unknown-base write (an element of type E of some slice) land in this
		// region? only if the region's type sits inside an E, or holds an array of E by value
		hit := false
		for _, E := range unknown {
			if containsType(E, f.typ, 0) || containsArrayOf(f.typ, E, 0) {
				hit = true
			}
		}
		if hit {
			out = append(out, f)
			continue
		}
		// only the exactly named cells of this object
		for _, k := range known {
			switch c.cmpAddr(k.obj, f.obj) {
			case 1:
				out = append(out, frameLoc{obj: f.obj, lo: k.lo, hi: k.hi, typ: f.typ})
			case 0:
				out = append(out, frameLoc{obj: k.obj, lo: k.lo, hi: k.hi, typ: f.typ})
			}
		}
	}
	return out, true
}

func containsArrayOf(s types.Type, t types.Type, depth int) bool {
	if depth > 6 {
		return false
	}
	switch u := s.Underlying().(type) {
	case *types.Struct:
		for i := 0; i < u.NumFields(); i++ {
			if containsArrayOf(u.Field(i).Type(), t, depth+1) {
				return true
			}
		}
	case *types.Array:
		return containsType(u.Elem(), t, depth+1) || containsArrayOf(u.Elem(), t, depth+1)
	}
	return false
}

func storedIn(body map[*ssa.BasicBlock]bool, a *ssa.Alloc) bool {
	for b := range body {
		for _, in := range b.Instrs {
			if st, ok := in.(*ssa.Store); ok && st.Addr == a {
				return true
			}
		}
	}
	return false
}

func endsInReturn(b *ssa.BasicBlock) bool {
	_, ok := b.Instrs[len(b.Instrs)-1].(*ssa.Return)
	return ok
}

// feasible2 decides the two sides of a branch: a side is dropped only when a
// solver refutes pc && cond. Both queries run concurrently; when one side is
// refuted the other needs no answer (the state itself is reachable).
func (e *Exec) feasible2(s *State, cond, ncond string) (bool, bool) {
	c := e.c
	if cond == "true" || ncond == "false" {
		return true, false
	}
	if cond == "false" || ncond == "true" {
		return false, true
	}
	if s.pc == "false" {
		return false, false
	}
	g0 := c.B("(not (and %s %s))", s.pc, cond)
	g1 := c.B("(not (and %s %s))", s.pc, ncond)
	dir := e.root.pruneDir
	if dir == "" {
		dir, _ = os.MkdirTemp("", "rtpverify-prune")
		e.root.pruneDir = dir
	}
	pto := 5
	if x, err := strconv.Atoi(os.Getenv("VERIF_PRUNE_TO")); err == nil && x > 0 {
		pto = x
	}
	ctx, cancel := context.WithCancel(context.Background())
	defer cancel()
	type res struct {
		side int
		v    string
		secs float64
	}
	ch := make(chan res, 6)
	for side, g := range []string{g0, g1} {
		o := &Obl{ctx: c, at: len(c.lines), hist: s.hist, goal: g}
		e.root.pruneN++
		file := fmt.Sprintf("%s/p%d.smt2", dir, e.root.pruneN)
		os.WriteFile(file, []byte(strings.Replace(o.query(), zeroRowAxioms, zeroRowConst, 1)), 0o644)
		os.WriteFile(file+".cvc5", []byte(o.query()), 0o644)
		for _, sv := range []struct {
			name string
			seed int
		}{{"z3-new", 0}, {"z3-new", 7}, {"cvc5", 0}} {
			go func(side int, file, name string, seed int) {
				v, _, secs := runSolverCtx(ctx, name, file, pto, seed)
				ch <- res{side, v, secs}
			}(side, file, sv.name, sv.seed)
		}
		if os.Getenv("VERIF_DEBUG") == "" {
			defer os.Remove(file)
			defer os.Remove(file + ".cvc5")
		}
	}
	f := [2]bool{true, true}
	for k := 0; k < 6; k++ {
		r := <-ch
		if os.Getenv("VERIF_DEBUG") != "" {
			fmt.Fprintf(os.Stderr, "prune %s p%d side %d: %s %.2fs @%s\n", e.name, e.root.pruneN-1+r.side, r.side, r.v, r.secs, e.root.prunePos)
		}
		if r.v == "unsat" {
			f[r.side] = false
			e.root.pruned++
			cancel()
			break
		}
		if r.v == "sat" && k == 0 {
			// this side is feasible; the other still deserves its answer
			continue
		}
	}
	return f[0], f[1]
}

// feasible: false only when a solver refutes pc && cond (the branch is then
// dead code under the function's preconditions and is not executed).
func (e *Exec) feasible(s *State, cond string) bool {
	c := e.c
	if cond == "true" {
		return true
	}
	if cond == "false" || s.pc == "false" {
		return false
	}
	goal := c.B("(not (and %s %s))", s.pc, cond)
	o := &Obl{ctx: c, at: len(c.lines), hist: s.hist, goal: goal}
	dir := e.root.pruneDir
	if dir == "" {
		dir, _ = os.MkdirTemp("", "rtpverify-prune")
		e.root.pruneDir = dir
	}
	e.root.pruneN++
	file := fmt.Sprintf("%s/p%d.smt2", dir, e.root.pruneN)
	os.WriteFile(file, []byte(strings.Replace(o.query(), zeroRowAxioms, zeroRowConst, 1)), 0o644)
	if os.Getenv("VERIF_DEBUG") == "" {
		defer os.Remove(file)
	}
	pto := 2
	if x, err := strconv.Atoi(os.Getenv("VERIF_PRUNE_TO")); err == nil && x > 0 {
		pto = x
	}
	v, _, secs := runSolver("z3-new", file, pto, 0)
	if os.Getenv("VERIF_DEBUG") != "" {
		fmt.Fprintf(os.Stderr, "prune %s %s: %s %.2fs\n", e.name, file, v, secs)
	}
	if v == "unsat" {
		e.root.pruned++
		return false
	}
	return true
}
