#!/usr/bin/env python3
"""Confirm seeded changes produced by sub-agents: in the scratch worktree
/tmp/seed/<id> (pinned commit) check that (a) the demo passes on the pristine
tree, (b) with the patch the whole suite passes, (c) with the patch the demo
fails. Confirmed seeds are stored as /verif/seeded/<id>-<k>/."""
import json, os, shutil, subprocess, sys, glob
ENV = dict(os.environ, GOFLAGS="-mod=mod", GOPROXY="off", GOSUMDB="off", GOTOOLCHAIN="local")
def run(cmd, cwd):
    p = subprocess.run(cmd, cwd=cwd, env=ENV, shell=True, capture_output=True, text=True, timeout=900)
    return p.returncode, (p.stdout + p.stderr)[-2000:]
ids = sys.argv[1:] or sorted(os.path.basename(d) for d in glob.glob('/tmp/seed/C??') if os.path.isdir(d))
for pid in ids:
    wt = f'/tmp/seed/{pid}'
    stash = f'/tmp/seed/{pid}.SEED'
    if os.path.isdir(f'{wt}/SEED'):
        shutil.rmtree(stash, ignore_errors=True)
        shutil.move(f'{wt}/SEED', stash)
    if not os.path.isdir(stash):
        continue
    run('git checkout -- . && git clean -fdq', wt)
    for k in sorted(os.listdir(stash)):
        sd = f'{stash}/{k}'
        if not os.path.isfile(f'{sd}/patch.diff'):
            continue
        meta = json.load(open(f'{sd}/meta.json'))
        pkgdir = meta.get('demo_pkg_dir', '.')
        demo = [f for f in os.listdir(sd) if f.endswith('_test.go')][0]
        dst = os.path.join(wt, pkgdir, 'zz_seed_demo_test.go')
        res = {}
        shutil.copy(f'{sd}/{demo}', dst)
        rc, out = run(f'go test -vet=off -count=1 -run Seed ./{pkgdir}', wt)
        res['demo_passes_on_pristine'] = rc == 0
        os.remove(dst)
        rc, out = run(f'git apply {sd}/patch.diff', wt)
        res['patch_applies'] = rc == 0
        rc, out = run('go build ./... && go test -vet=off -count=1 ./...', wt)
        res['suite_passes_with_patch'] = rc == 0
        shutil.copy(f'{sd}/{demo}', dst)
        rc, out = run(f'go test -vet=off -count=1 -run Seed ./{pkgdir}', wt)
        res['demo_fails_with_patch'] = rc != 0
        res['demo_output_tail'] = out[-600:]
        os.remove(dst)
        run('git checkout -- . && git clean -fdq', wt)
        ok = all(res[x] for x in ['demo_passes_on_pristine', 'patch_applies', 'suite_passes_with_patch', 'demo_fails_with_patch'])
        res['confirmed'] = ok
        meta['confirmation'] = res
        meta['what_i_ran'] = ['go test -run Seed ./<pkg> on the pinned tree (pass)', 'git apply patch.diff; go build ./... && go test -vet=off -count=1 ./... (pass)', 'go test -run Seed ./<pkg> with the patch (fail)']
        out_dir = f'/verif/seeded/{pid}-{k}'
        if ok:
            os.makedirs(out_dir, exist_ok=True)
            shutil.copy(f'{sd}/patch.diff', out_dir)
            shutil.copy(f'{sd}/{demo}', f'{out_dir}/zz_seed_demo_test.go')
            json.dump(meta, open(f'{out_dir}/meta.json', 'w'), indent=1)
        print(pid, k, 'CONFIRMED' if ok else 'REJECTED', {a: b for a, b in res.items() if a != 'demo_output_tail'}, flush=True)
