package main

import (
	"fmt"
	"regexp"
	"math/big"
	"strings"
)

// Ctx accumulates one SMT-LIB script per verified function: declarations,
// hash-consed definitions and assumptions, in program order. An obligation
// remembers how many lines precede it, so its query is "prefix + (not goal)".
type Ctx struct {
	lines []string
	tags  []int32  // per line: 0 = always included, else the block visit that emitted it
	cur   int32    // current block visit
	nvis  int32
	curHist *big.Int // history (set of block visits) of the state being executed
	n     int
	cons  map[string]string // hash-consing: "sort|expr" -> name
	obls  []*Obl
	raw   int                 // >0: inside a quantifier body, build raw terms (no define-fun, no assumptions)
	maxv  map[string]*big.Int // known upper bound (term known >= 0)
	lowz  map[string]int      // known trailing zero bits
	decls map[string]bool
	reps   map[string]sliceRep
	splits map[string][2]chunk
	refine map[string]sliceRep
	uOf    map[string]string // signed term -> its unsigned (two's complement) representation
	rawFacts [][]string      // typing facts collected while building the body of a quantified hypothesis
	caseConds []caseCond
	bounded  string // non-empty once an incompletely unrolled loop has been passed
	quants   map[string]*quantInfo
	qorder   []string
	defs     map[string]string // define-fun name -> body
	objTags  map[string][]int // object term -> the allocation tags it can carry when it is not nil (Go typing of the value it stands for)
	nonNil   map[string]bool  // object terms known not to be nil
}

type caseCond struct {
	term  string
	at    int
	visit int32
	lenTerm string // length of the slice before the append
}

// quantInfo remembers a universally quantified formula built from a spec, so
// that it can be instantiated by name at the skolem constants of a goal.
type quantInfo struct {
	src  []string // binder names as written in the spec
	smt  []string // the SMT binder names
	body string
	at   int
	offs []string // element-wise equalities: the two base offsets (used to align instances)
}

// Obl is one proof obligation.
type Obl struct {
	Name   string   // stable name: Func:kind:label[#ordinal]
	Func   string   // function under contract
	Kind   string   // safety | ensures | requires | inv-init | inv-step | decreases | frame | guard | vacuity
	Label  string   // clause label or safety kind
	Props  []string // property ids served
	Pos    string   // file:line (informational only)
	at     int
	goal   string
	ctx    *Ctx
	Expect string // "unsat" normally; "sat" for vacuity canaries
	// results
	Verdict string
	Backend string
	Secs    float64
	Detail  string
	Bounded string // non-empty: bounded obligation, with the bound
	rootFn  string
	extra   []string // skolem constants and hypothesis instances for a quantified goal
	hist    *big.Int // block visits that can precede this obligation; nil = everything
	hasQuant bool
	shortFirst bool
	sk0     string   // first skolem constant of a quantified goal
	cases   []string // Bool terms worth a case split (in-place vs. growth of recent appends)
}

func newCtx() *Ctx {
	c := &Ctx{cons: map[string]string{}, maxv: map[string]*big.Int{}, lowz: map[string]int{}, decls: map[string]bool{}, reps: map[string]sliceRep{}, splits: map[string][2]chunk{}, refine: map[string]sliceRep{}, uOf: map[string]string{}, quants: map[string]*quantInfo{}, defs: map[string]string{}, objTags: map[string][]int{}, nonNil: map[string]bool{}}
	for _, l := range []string{"(define-sort HP () (Array Int (Array Int Int)))", "(declare-fun tag (Int) Int)", "(declare-fun wraps (Int) Int)",
		// the all-zero object row (a named array instead of (as const ...): cvc5's array solver rejects chains over constant arrays)
		"(declare-const zeroRow (Array Int Int))", "(assert (forall ((x Int)) (! (= (select zeroRow x) 0) :pattern ((select zeroRow x)))))"} {
		c.emit(l, false)
	}
	return c
}

// emit appends a line. Scoped lines belong to the block visit being executed
// and are left out of queries whose state cannot have passed through it.
func (c *Ctx) emit(line string, scoped bool) {
	c.lines = append(c.lines, line)
	if scoped {
		c.tags = append(c.tags, c.cur)
	} else {
		c.tags = append(c.tags, 0)
	}
}

func (c *Ctx) newVisit() int32 {
	c.nvis++
	return c.nvis
}

func (c *Ctx) fresh(sort, hint string) string {
	c.n++
	name := fmt.Sprintf("%s!%d", sanitize(hint), c.n)
	c.emit(fmt.Sprintf("(declare-const %s %s)", name, sort), false)
	return name
}

func (c *Ctx) declareFun(name string, nargs int, ret string) {
	if c.decls[name] {
		return
	}
	c.decls[name] = true
	args := strings.TrimSpace(strings.Repeat("Int ", nargs))
	c.emit(fmt.Sprintf("(declare-fun %s (%s) %s)", name, args, ret), false)
}

func (c *Ctx) declareConst(name, sort string, extra ...string) {
	if c.decls[name] {
		return
	}
	c.decls[name] = true
	c.emit(fmt.Sprintf("(declare-const %s %s)", name, sort), false)
	for _, x := range extra {
		c.emit(x, false)
	}
}

func sanitize(s string) string {
	return strings.Map(func(r rune) rune {
		if r >= 'a' && r <= 'z' || r >= 'A' && r <= 'Z' || r >= '0' && r <= '9' || r == '_' {
			return r
		}
		return '_'
	}, s)
}

func isAtom(e string) bool { return !strings.HasPrefix(e, "(") }

var foldRe = regexp.MustCompile(`^\((\+|-|\*) (\d+|\(- \d+\)) (\d+|\(- \d+\))\)$`)
var addZeroRe = regexp.MustCompile(`^\(\+ (\S+) 0\)$|^\(\+ 0 (\S+)\)$|^\(\* (\S+) 1\)$|^\(- (\S+) 0\)$`)

// fold: constant folding of the simplest integer shapes (keeps literals literal,
// which lets later stages drop empty copies and recognise constant offsets).
func fold(expr string) string {
	if m := foldRe.FindStringSubmatch(expr); m != nil {
		a, b := litVal(m[2]), litVal(m[3])
		var r *big.Int
		switch m[1] {
		case "+":
			r = new(big.Int).Add(a, b)
		case "-":
			r = new(big.Int).Sub(a, b)
		default:
			r = new(big.Int).Mul(a, b)
		}
		return lit(r)
	}
	if m := addZeroRe.FindStringSubmatch(expr); m != nil {
		for _, g := range m[1:] {
			if g != "" && !strings.ContainsAny(g, "()") {
				return g
			}
		}
	}
	if strings.HasPrefix(expr, "(* ") && (strings.HasSuffix(expr, " 0)") || strings.HasPrefix(expr, "(* 0 ")) && strings.Count(expr, "(") == 1 {
		return "0"
	}
	return expr
}

var cmpLitOnly = regexp.MustCompile(`^(\d+|\(- \d+\))$`)
var cmpLitRe = regexp.MustCompile(`^\((<=|<|>=|>|=) (\d+|\(- \d+\)) (\d+|\(- \d+\))\)$`)

func litVal(s string) *big.Int {
	if strings.HasPrefix(s, "(- ") {
		v, _ := new(big.Int).SetString(strings.TrimSuffix(strings.TrimPrefix(s, "(- "), ")"), 10)
		return v.Neg(v)
	}
	v, _ := new(big.Int).SetString(s, 10)
	return v
}

// foldBool: comparisons between literals.
func foldBool(expr string) string {
	if m := cmpLitRe.FindStringSubmatch(expr); m != nil {
		a, b := litVal(m[2]), litVal(m[3])
		var r bool
		switch m[1] {
		case "<=":
			r = a.Cmp(b) <= 0
		case "<":
			r = a.Cmp(b) < 0
		case ">=":
			r = a.Cmp(b) >= 0
		case ">":
			r = a.Cmp(b) > 0
		default:
			r = a.Cmp(b) == 0
		}
		if r {
			return "true"
		}
		return "false"
	}
	return expr
}

func (c *Ctx) def(sort, expr string) string {
	if sort == "Int" {
		expr = fold(expr)
	} else if sort == "Bool" {
		expr = foldBool(expr)
	}
	if isAtom(expr) || c.raw > 0 {
		return expr
	}
	key := sort + "|" + expr
	if n, ok := c.cons[key]; ok {
		return n
	}
	c.n++
	name := fmt.Sprintf("t!%d", c.n)
	c.emit(fmt.Sprintf("(define-fun %s () %s %s)", name, sort, expr), false)
	c.cons[key] = name
	c.defs[name] = expr
	return name
}

func (c *Ctx) I(format string, a ...any) string { return c.def("Int", fmt.Sprintf(format, a...)) }
func (c *Ctx) B(format string, a ...any) string { return c.def("Bool", fmt.Sprintf(format, a...)) }
func (c *Ctx) H(format string, a ...any) string { return c.def("HP", fmt.Sprintf(format, a...)) }

func (c *Ctx) assume(pc, cond string) {
	if cond == "true" {
		return
	}
	if c.raw > 0 {
		// under a binder: facts cannot be asserted at top level; a quantified
		// hypothesis collects them into its own body (see Env.eval, forall)
		if n := len(c.rawFacts); n > 0 {
			if pc == "true" {
				c.rawFacts[n-1] = append(c.rawFacts[n-1], cond)
			} else {
				c.rawFacts[n-1] = append(c.rawFacts[n-1], fmt.Sprintf("(=> %s %s)", pc, cond))
			}
		}
		return
	}
	if pc == "true" {
		c.emit(fmt.Sprintf("(assert %s)", cond), true)
	} else {
		c.emit(fmt.Sprintf("(assert (=> %s %s))", pc, cond), true)
	}
}

// oblige records an obligation and (as every deductive verifier does) assumes
// it afterwards.
func (c *Ctx) oblige(o *Obl, pc, cond string) *Obl {
	o.at = len(c.lines)
	o.goal = fmt.Sprintf("(=> %s %s)", pc, cond)
	o.ctx = c
	if c.curHist != nil {
		o.hist = new(big.Int).Set(c.curHist)
	}
	o.Bounded = c.bounded
	c.skolemize(o, pc, cond)
	if o.Expect == "" {
		o.Expect = "unsat"
	}
	c.obls = append(c.obls, o)
	if o.Expect == "unsat" {
		c.assume(pc, cond)
	}
	return o
}

func (c *Ctx) and(a, b string) string {
	if a == "true" {
		return b
	}
	if b == "true" {
		return a
	}
	if a == "false" || b == "false" {
		return "false"
	}
	return c.B("(and %s %s)", a, b)
}

func (c *Ctx) or(a, b string) string {
	if a == "false" {
		return b
	}
	if b == "false" {
		return a
	}
	if a == "true" || b == "true" {
		return "true"
	}
	return c.B("(or %s %s)", a, b)
}

func (c *Ctx) not(a string) string {
	switch a {
	case "true":
		return "false"
	case "false":
		return "true"
	}
	return c.B("(not %s)", a)
}

func (c *Ctx) implies(a, b string) string {
	if a == "true" {
		return b
	}
	if a == "false" || b == "true" {
		return "true"
	}
	return c.B("(=> %s %s)", a, b)
}

func (c *Ctx) ite(sort, cond, a, b string) string {
	if a == b {
		return a
	}
	if cond == "true" {
		return a
	}
	if cond == "false" {
		return b
	}
	return c.def(sort, fmt.Sprintf("(ite %s %s %s)", cond, a, b))
}

func pow2(n int) *big.Int { return new(big.Int).Lsh(big.NewInt(1), uint(n)) }

func lit(v *big.Int) string {
	if v.Sign() < 0 {
		return "(- " + new(big.Int).Neg(v).String() + ")"
	}
	return v.String()
}

// wrap an Int term into the range of an integer leaf (exact machine semantics)
func (c *Ctx) wrap(e string, l leaf) string {
	m := pow2(l.bits)
	if cmpLitOnly.MatchString(e) {
		v := litVal(e)
		v = new(big.Int).Mod(v, m)
		if l.signed && v.Cmp(pow2(l.bits-1)) >= 0 {
			v.Sub(v, m)
		}
		return lit(v)
	}
	if !l.signed {
		if mx := c.getMax(e); mx != nil && mx.Cmp(m) < 0 {
			return e // known to lie in [0, 2^bits): no wrap
		}
		if _, ok := isLit(e); ok || l.bits < 64 {
			r := c.I("(mod %s %s)", e, m)
			c.setMax(r, new(big.Int).Sub(m, big.NewInt(1)))
			return r
		}
		// the in-range case first: lets the solver split instead of reasoning through mod
		r := c.I("(ite (and (<= 0 %s) (< %s %s)) %s (mod %s %s))", e, e, m, e, e, m)
		c.setMax(r, new(big.Int).Sub(m, big.NewInt(1)))
		return r
	}
	h := pow2(l.bits - 1)
	if l.bits < 64 {
		return c.I("(- (mod (+ %s %s) %s) %s)", e, h, m, h)
	}
	return c.I("(ite (and (<= (- %s) %s) (< %s %s)) %s (- (mod (+ %s %s) %s) %s))", h, e, e, h, e, e, h, m, h)
}

func (c *Ctx) inRange(e string, l leaf) string {
	switch l.kind {
	case "bool":
		return c.B("(or (= %s 0) (= %s 1))", e, e)
	case "ref":
		return c.B("(<= 0 %s)", e)
	case "flt":
		return "true"
	}
	if !l.signed {
		return c.B("(and (<= 0 %s) (< %s %s))", e, e, pow2(l.bits))
	}
	h := pow2(l.bits - 1)
	return c.B("(and (<= (- %s) %s) (< %s %s))", h, e, e, h)
}

func (c *Ctx) setMax(t string, m *big.Int) {
	if c.raw > 0 {
		return
	}
	if old, ok := c.maxv[t]; !ok || m.Cmp(old) < 0 {
		c.maxv[t] = m
	}
}

func (c *Ctx) getMax(t string) *big.Int {
	if v, ok := new(big.Int).SetString(t, 10); ok && v.Sign() >= 0 {
		return v
	}
	return c.maxv[t]
}

func (c *Ctx) getLowz(t string) int {
	if v, ok := new(big.Int).SetString(t, 10); ok && v.Sign() > 0 {
		return int(v.TrailingZeroBits())
	}
	return c.lowz[t]
}

// skolemize: when the goal is (or implies) a universally quantified spec
// formula, replace its bound variables by fresh constants and add, for every
// quantified spec formula known so far whose binder names are among the
// goal's, the instance at those constants. (forall x. B) => B[c] is a
// tautology, so the added assertions are sound whatever the polarity of the
// hypothesis; they only spare the solver the search for the instance.
func (c *Ctx) skolemize(o *Obl, pc, cond string) {
	guard := ""
	q := c.quants[cond]
	if q == nil {
		if d, ok := c.defs[cond]; ok && strings.HasPrefix(d, "(=> ") {
			inner := strings.TrimSuffix(strings.TrimPrefix(d, "(=> "), ")")
			if i := strings.LastIndex(inner, " "); i > 0 {
				if qq := c.quants[inner[i+1:]]; qq != nil {
					q, guard = qq, inner[:i]
				}
			}
		}
	}
	if q == nil {
		return
	}
	sk := map[string]string{}
	var extra []string
	c.n++
	for i, src := range q.src {
		name := fmt.Sprintf("sk_%s!%d", sanitize(src), c.n)
		sk[src] = name
		extra = append(extra, fmt.Sprintf("(declare-const %s Int)", name))
		if i == 0 {
			o.sk0 = name
		}
	}
	inst := func(qi *quantInfo) string {
		b := qi.body
		for i, src := range qi.src {
			b = strings.ReplaceAll(b, qi.smt[i], sk[src])
		}
		return b
	}
	for _, name := range c.qorder {
		qi := c.quants[name]
		if qi == q || qi.at > len(c.lines) {
			continue
		}
		ok := true
		for _, src := range qi.src {
			if _, have := sk[src]; !have {
				ok = false
			}
		}
		if ok {
			extra = append(extra, fmt.Sprintf("(assert (=> %s %s))", name, inst(qi)))
			// element-wise equalities over shifted windows: also the instances that line
			// the hypothesis' windows up with the goal's
			if len(q.offs) > 0 && len(qi.offs) > 0 && len(qi.smt) == 1 {
				seen := map[string]bool{}
				for _, g := range q.offs {
					for _, h := range qi.offs {
						if g == h || seen[g+"|"+h] {
							continue
						}
						seen[g+"|"+h] = true
						idx := fmt.Sprintf("(+ %s (- %s %s))", sk[qi.src[0]], g, h)
						extra = append(extra, fmt.Sprintf("(assert (=> %s %s))", name, strings.ReplaceAll(qi.body, qi.smt[0], idx)))
					}
				}
			}
		} else if len(qi.src) == 1 && len(q.src) <= 3 {
			// a one-variable hypothesis whose binder has another name: try it at each skolem of the goal
			for _, gs := range q.src {
				b := strings.ReplaceAll(qi.body, qi.smt[0], sk[gs])
				extra = append(extra, fmt.Sprintf("(assert (=> %s %s))", name, b))
			}
		}
	}
	body := inst(q)
	if guard != "" {
		body = fmt.Sprintf("(=> %s %s)", guard, body)
	}
	o.extra = extra
	o.goal = fmt.Sprintf("(=> %s %s)", pc, body)
}

// add and mulK build folded address arithmetic.
func (c *Ctx) add(a, b string) string {
	if a == "0" {
		return b
	}
	if b == "0" {
		return a
	}
	return c.I("(+ %s %s)", a, b)
}

func (c *Ctx) mulK(a string, k int) string {
	if k == 1 {
		return a
	}
	if v, ok := isLit(a); ok {
		return new(big.Int).Mul(v, big.NewInt(int64(k))).String()
	}
	return c.I("(* %s %d)", a, k)
}
