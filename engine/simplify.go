package main

import (
	"math/big"
	"strings"
)

// Syntactic read-over-write: most loads in marshalling code read a cell that
// was stored a few instructions earlier at a literally known offset of a
// freshly made buffer (out[0] |= 0x80 ...). Resolving those loads while the VC
// is generated keeps constants constant (so the bit-slice normal form applies)
// and spares the solver the store chains. Purely an optimisation: when
// equality or distinctness of two addresses is not decided syntactically the
// load is left to the solver.

// splitArgs splits "(op a b c)" into op and its top-level arguments.
func splitArgs(e string) (string, []string) {
	if !strings.HasPrefix(e, "(") || !strings.HasSuffix(e, ")") {
		return "", nil
	}
	inner := e[1 : len(e)-1]
	var parts []string
	depth, start := 0, 0
	for i := 0; i < len(inner); i++ {
		switch inner[i] {
		case '(':
			depth++
		case ')':
			depth--
		case ' ':
			if depth == 0 {
				if i > start {
					parts = append(parts, inner[start:i])
				}
				start = i + 1
			}
		}
	}
	if start < len(inner) {
		parts = append(parts, inner[start:])
	}
	if len(parts) == 0 {
		return "", nil
	}
	return parts[0], parts[1:]
}

func (c *Ctx) expand(t string) string {
	if d, ok := c.defs[t]; ok {
		return d
	}
	return t
}

// baseOff normalises an Int term to base + literal offset.
func (c *Ctx) baseOff(t string) (string, *big.Int) {
	off := new(big.Int)
	for depth := 0; depth < 32; depth++ {
		if v, ok := isLit(t); ok {
			return "", off.Add(off, v)
		}
		d := c.expand(t)
		op, args := splitArgs(d)
		if op != "+" {
			return t, off
		}
		// (+ x k) or (+ k x) or (+ x k1 k2)
		var rest []string
		for _, a := range args {
			if v, ok := isLit(a); ok {
				off.Add(off, v)
			} else {
				rest = append(rest, a)
			}
		}
		if len(rest) == 0 {
			return "", off
		}
		if len(rest) > 1 {
			return t, new(big.Int) // not normalisable: treat the whole term as the base
		}
		t = rest[0]
	}
	return t, off
}

// cmpAddr: 1 = equal, -1 = distinct, 0 = unknown
func (c *Ctx) cmpAddr(a, b string) int {
	if a == b {
		return 1
	}
	ba, oa := c.baseOff(a)
	bb, ob := c.baseOff(b)
	if ba == bb {
		if oa.Cmp(ob) == 0 {
			return 1
		}
		return -1
	}
	if c.distinctObjs(a, b) {
		return -1
	}
	return 0
}

// distinctObjs: two object terms whose possible allocation tags are disjoint
// denote different objects unless both are nil.
func (c *Ctx) distinctObjs(a, b string) bool {
	ta, tb := c.objTags[a], c.objTags[b]
	if len(ta) == 0 || len(tb) == 0 || !(c.nonNil[a] || c.nonNil[b]) {
		return false
	}
	for _, x := range ta {
		for _, y := range tb {
			if x == y {
				return false
			}
		}
	}
	return true
}

// readHeap resolves (select (select h obj) idx) through store chains.
func (c *Ctx) readHeap(h, obj, idx string) (string, bool) {
	h0 := h
	// the chain could not be followed to a value: the read is still the same read
	// on the heap below the stores that were proved to touch other objects
	partial := func() (string, bool) {
		if h == h0 {
			return "", false
		}
		return c.I("(select (select %s %s) %s)", h, obj, idx), true
	}
	for depth := 0; depth < 200; depth++ {
		d := c.expand(h)
		op, args := splitArgs(d)
		if op == "ite" && len(args) == 3 && depth < 150 {
			// merged heaps: resolve both sides
			a, ok1 := c.readHeap(args[1], obj, idx)
			b, ok2 := c.readHeap(args[2], obj, idx)
			if ok1 && ok2 {
				return c.ite("Int", args[0], a, b), true
			}
			return partial()
		}
		if op != "store" || len(args) != 3 {
			return partial()
		}
		switch c.cmpAddr(args[1], obj) {
		case 1:
			if v, ok := c.readRow(args[2], obj, idx, depth); ok {
				return v, true
			}
			return partial()
		case -1:
			h = args[0]
		default:
			return partial()
		}
	}
	return partial()
}

func (c *Ctx) readRow(row, obj, idx string, depth int) (string, bool) {
	for ; depth < 200; depth++ {
		d := c.expand(row)
		if d == "zeroRow" {
			return "0", true
		}
		op, args := splitArgs(d)
		switch {
		case op == "store" && len(args) == 3:
			switch c.cmpAddr(args[1], idx) {
			case 1:
				return args[2], true
			case -1:
				row = args[0]
			default:
				return "", false
			}
		case op == "select" && len(args) == 2:
			if c.cmpAddr(args[1], obj) != 1 {
				return "", false
			}
			return c.readHeap(args[0], obj, idx)
		default:
			return "", false
		}
	}
	return "", false
}
