// SPDX-FileCopyrightText: 2023 The Pion community <https://pion.ly>
// SPDX-License-Identifier: MIT

//go:build verif

// Contracts (machine-checked by /verif/engine) for package obu. Only compiled
// with the build tag "verif"; nothing here is part of the library.

package obu

// ===== C13: LEB128 (AV1 spec 4.10.5) and the OBU header (5.3.2/5.3.3) =====

//@ pure pow128(i) = ite(i <= 0, 1, ite(i == 1, 128, ite(i == 2, 16384, ite(i == 3, 2097152, ite(i == 4, 268435456, ite(i == 5, 34359738368, ite(i == 6, 4398046511104, ite(i == 7, 562949953421312, ite(i == 8, 72057594037927936, 9223372036854775808)))))))))
//@ pure pow256(i) = ite(i <= 0, 1, ite(i == 1, 256, ite(i == 2, 65536, ite(i == 3, 16777216, ite(i == 4, 4294967296, ite(i == 5, 1099511627776, ite(i == 6, 281474976710656, 72057594037927936)))))))
// number of 7-bit groups of x (at least one)
//@ pure lebLen(x) = ite(x < 128, 1, ite(x < 16384, 2, ite(x < 2097152, 3, ite(x < 268435456, 4, ite(x < 34359738368, 5, ite(x < 4398046511104, 6, ite(x < 562949953421312, 7, ite(x < 72057594037927936, 8, ite(x < 9223372036854775808, 9, 10)))))))))
// byte i of the LEB128 encoding of x: seven value bits, continuation bit on all but the last
//@ pure lebByte(x, i) = (x / pow128(i)) % 128 + ite(i < lebLen(x) - 1, 128, 0)

//@ pure bool lebAt(r, x, i) = i < len(r) ==> int(r[i]) == lebByte(x, i)
//@ spec WriteToLeb128
//@   loop 0: unroll 10 complete
//@   ensures length [C13,C19]: len(result0) == lebLen(int(in)) && fresh(result0) && result0 != nil
//@   ensures bytes [C13,C19]: lebAt(result0, int(in), 0) && lebAt(result0, int(in), 1) && lebAt(result0, int(in), 2) && lebAt(result0, int(in), 3) && lebAt(result0, int(in), 4) && lebAt(result0, int(in), 5) && lebAt(result0, int(in), 6) && lebAt(result0, int(in), 7) && lebAt(result0, int(in), 8) && lebAt(result0, int(in), 9)
//@ end

// decodeLEB128 folds the bytes of its argument (most significant byte = first
// encoded byte = least significant group) into the value.
//@ pure byteLen(x) = ite(x < 256, 1, ite(x < 65536, 2, ite(x < 16777216, 3, ite(x < 4294967296, 4, ite(x < 1099511627776, 5, ite(x < 281474976710656, 6, ite(x < 72057594037927936, 7, 8)))))))
//@ pure grp(x, j) = ((x / pow256(j)) % 128) * pow128(byteLen(x) - 1 - j)
//@ spec decodeLEB128
//@   loop 0: unroll 8 complete
//@   ensures bound [C13,C09,C19]: int(result0) < 72057594037927936
//@   ensures value [C13]: int(result0) == (grp(int(in), 0) + ite(1 < byteLen(int(in)), grp(int(in), 1), 0) + ite(2 < byteLen(int(in)), grp(int(in), 2), 0) + ite(3 < byteLen(int(in)), grp(int(in), 3), 0) + ite(4 < byteLen(int(in)), grp(int(in), 4), 0) + ite(5 < byteLen(int(in)), grp(int(in), 5), 0) + ite(6 < byteLen(int(in)), grp(int(in), 6), 0) + ite(7 < byteLen(int(in)), grp(int(in), 7), 0)) % 18446744073709551616
//@ end

// ReadLeb128: the encoding ends at the first byte without the continuation
// bit; the value is the little-endian sum of the 7-bit groups (stated for
// encodings of at most 8 bytes: beyond that the 64-bit accumulator overflows).
//@ pure acc(s, m) = ite(m <= 0, 0, ite(m == 1, int(s[0]), ite(m == 2, int(s[0])*256 + int(s[1]), ite(m == 3, int(s[0])*65536 + int(s[1])*256 + int(s[2]), ite(m == 4, int(s[0])*16777216 + int(s[1])*65536 + int(s[2])*256 + int(s[3]), ite(m == 5, int(s[0])*4294967296 + int(s[1])*16777216 + int(s[2])*65536 + int(s[3])*256 + int(s[4]), ite(m == 6, int(s[0])*1099511627776 + int(s[1])*4294967296 + int(s[2])*16777216 + int(s[3])*65536 + int(s[4])*256 + int(s[5]), ite(m == 7, int(s[0])*281474976710656 + int(s[1])*1099511627776 + int(s[2])*4294967296 + int(s[3])*16777216 + int(s[4])*65536 + int(s[5])*256 + int(s[6]), int(s[0])*72057594037927936 + int(s[1])*281474976710656 + int(s[2])*1099511627776 + int(s[3])*4294967296 + int(s[4])*16777216 + int(s[5])*65536 + int(s[6])*256 + int(s[7])))))))))
//@ pure lebVal(s, n) = int(s[0]) % 128 + ite(1 < n, (int(s[1]) % 128) * 128, 0) + ite(2 < n, (int(s[2]) % 128) * 16384, 0) + ite(3 < n, (int(s[3]) % 128) * 2097152, 0) + ite(4 < n, (int(s[4]) % 128) * 268435456, 0) + ite(5 < n, (int(s[5]) % 128) * 34359738368, 0) + ite(6 < n, (int(s[6]) % 128) * 4398046511104, 0) + ite(7 < n, (int(s[7]) % 128) * 562949953421312, 0)
//@ spec ReadLeb128
//@   ensures shape [C13,C19,C09]: result2 == nil ==> 1 <= int(result1) && int(result1) <= len(in) && int(in[int(result1) - 1]) < 128 && (forall i :: 0 <= i && i < int(result1) - 1 ==> int(in[i]) >= 128)
//@   ensures bound [C13,C09,C19]: int(result0) < 72057594037927936
//@   ensures failed [C13,C19,C09]: result2 != nil ==> errIs(result2, ErrFailedToReadLEB128) && result0 == 0 && result1 == 0 && (forall i :: 0 <= i && i < len(in) ==> int(in[i]) >= 128)
//@   loop 0: invariant scanned [C13,C19,C09]: rangeindex <= len(in) - 1 && (forall i :: 0 <= i && i <= rangeindex ==> int(in[i]) >= 128)
//@   loop 0: invariant accumulated_unused [C13]: true
//@   #loop 0: invariant accumulated [C13]: (rangeindex == -1 ==> encodedLength == 0) && (rangeindex == 0 ==> int(encodedLength) == acc(in, 1) * 256) && (rangeindex == 1 ==> int(encodedLength) == acc(in, 2) * 256) && (rangeindex == 2 ==> int(encodedLength) == acc(in, 3) * 256) && (rangeindex == 3 ==> int(encodedLength) == acc(in, 4) * 256) && (rangeindex == 4 ==> int(encodedLength) == acc(in, 5) * 256) && (rangeindex == 5 ==> int(encodedLength) == acc(in, 6) * 256) && (rangeindex == 6 ==> int(encodedLength) == acc(in, 7) * 256)
//@ end

// The value read back: for encodings of at most 8 bytes (beyond that the
// 64-bit accumulator of ReadLeb128 overflows) it is the little-endian sum of
// the 7-bit groups. Proved by executing ReadLeb128's body with its loop
// unrolled 8 times; paths needing a ninth byte are outside the clause.
//@ spec verifLemmaReadLeb128Value
//@   inline-calls ReadLeb128, decodeLEB128
//@   unroll 8
//@   ensures value [C13]: (result2 == nil && int(result1) == 1 ==> int(result0) == lebVal(in, 1)) && (result2 == nil && int(result1) == 2 ==> int(result0) == lebVal(in, 2)) && (result2 == nil && int(result1) == 3 ==> int(result0) == lebVal(in, 3)) && (result2 == nil && int(result1) == 4 ==> int(result0) == lebVal(in, 4)) && (result2 == nil && int(result1) == 5 ==> int(result0) == lebVal(in, 5)) && (result2 == nil && int(result1) == 6 ==> int(result0) == lebVal(in, 6)) && (result2 == nil && int(result1) == 7 ==> int(result0) == lebVal(in, 7)) && (result2 == nil && int(result1) == 8 ==> int(result0) == lebVal(in, 8))
//@ end
func verifLemmaReadLeb128Value(in []byte) (uint, uint, error) {
	return ReadLeb128(in)
}

// Write then read is the identity, for every value whose encoding has at most
// 8 bytes, i.e. below 2^56 (the property asks for 0..2^32-1). ReadLeb128 is
// executed from its body; the ninth iteration is shown infeasible (complete).
//@ spec verifLemmaLeb128RoundTrip
//@   requires int(x) < 72057594037927936
//@   inline-calls ReadLeb128, decodeLEB128
//@   unroll 8 complete
//@   ensures roundtrip [C13]: result2 == nil && result0 == x && int(result1) == lebLen(int(x))
//@ end
func verifLemmaLeb128RoundTrip(x uint, rest []byte) (uint, uint, error) {
	return ReadLeb128(append(WriteToLeb128(x), rest...))
}

// OBU header: forbidden bit, 4-bit type, extension flag, has-size flag, reserved bit; optional extension octet.
//@ spec ParseOBUExtensionHeader
//@   ensures fields [C13]: int(result0.TemporalID) == bits(headerData, 7, 5) && int(result0.SpatialID) == bits(headerData, 4, 3) && int(result0.Reserved3Bits) == bits(headerData, 2, 0)
//@ end
//@ spec (*ExtensionHeader).Marshal
//@   ensures octet [C13]: int(result0) == (int(o.TemporalID) % 8) * 32 + (int(o.SpatialID) % 4) * 8 + int(o.Reserved3Bits) % 8
//@ end
//@ spec ParseOBUHeader
//@   ensures short [C13,C09]: len(data) < 1 ==> errIs(result1, ErrShortHeader) && result0 == nil
//@   ensures forbidden [C13]: len(data) >= 1 && bits(data[0], 7, 7) == 1 ==> errIs(result1, ErrInvalidOBUHeader) && result0 == nil
//@   ensures short_ext [C13,C09]: len(data) == 1 && bits(data[0], 7, 7) == 0 && bits(data[0], 2, 2) == 1 ==> errIs(result1, ErrShortHeader) && result0 == nil
//@   ensures ok [C13]: (result1 == nil) <==> (len(data) >= 1 && bits(data[0], 7, 7) == 0 && (bits(data[0], 2, 2) == 1 ==> len(data) >= 2))
//@   ensures fields [C13]: result1 == nil ==> result0 != nil && fresh(result0) && int(result0.Type) == bits(data[0], 6, 3) && (result0.HasSizeField <==> bits(data[0], 1, 1) == 1) && (result0.Reserved1Bit <==> bits(data[0], 0, 0) == 1) && ((result0.ExtensionHeader != nil) <==> bits(data[0], 2, 2) == 1)
//@   ensures ext [C13]: result1 == nil && bits(data[0], 2, 2) == 1 ==> fresh(result0.ExtensionHeader) && int(result0.ExtensionHeader.TemporalID) == bits(data[1], 7, 5) && int(result0.ExtensionHeader.SpatialID) == bits(data[1], 4, 3) && int(result0.ExtensionHeader.Reserved3Bits) == bits(data[1], 2, 0)
//@ end
//@ spec (*Header).Size
//@   ensures size [C13]: result0 == ite(o.ExtensionHeader != nil, 2, 1)
//@ end
//@ spec (*Header).Marshal
//@   requires o.ExtensionHeader != nil ==> true
//@   ensures length [C13]: len(result0) == ite(o.ExtensionHeader != nil, 2, 1) && fresh(result0) && result0 != nil
//@   ensures first [C13]: int(result0[0]) == (int(o.Type) % 16) * 8 + ite(o.ExtensionHeader != nil, 4, 0) + bv(o.HasSizeField) * 2 + bv(o.Reserved1Bit)
//@   ensures second [C13]: o.ExtensionHeader != nil ==> int(result0[1]) == (int(o.ExtensionHeader.TemporalID) % 8) * 32 + (int(o.ExtensionHeader.SpatialID) % 4) * 8 + int(o.ExtensionHeader.Reserved3Bits) % 8
//@ end

// parse(marshal(h)) == h for every header with in-range fields, and
// marshal(parse(d)) == d for every accepted pair of octets.
//@ spec verifLemmaOBUHeaderMarshalParse
//@   requires h.Type < 16
//@   requires h.ExtensionHeader != nil ==> h.ExtensionHeader.TemporalID < 8 && h.ExtensionHeader.SpatialID < 4 && h.ExtensionHeader.Reserved3Bits < 8
//@   ensures inverse [C13]: result1 == nil && result0 != nil && result0.Type == h.Type && result0.HasSizeField == h.HasSizeField && result0.Reserved1Bit == h.Reserved1Bit && ((result0.ExtensionHeader != nil) <==> (h.ExtensionHeader != nil))
//@   ensures inverse_ext [C13]: h.ExtensionHeader != nil ==> result0.ExtensionHeader.TemporalID == h.ExtensionHeader.TemporalID && result0.ExtensionHeader.SpatialID == h.ExtensionHeader.SpatialID && result0.ExtensionHeader.Reserved3Bits == h.ExtensionHeader.Reserved3Bits
//@ end
func verifLemmaOBUHeaderMarshalParse(h *Header) (*Header, error) {
	return ParseOBUHeader(h.Marshal())
}

//@ spec verifLemmaOBUHeaderParseMarshal
//@   ensures inverse [C13]: result1 == nil ==> len(result0) == ite(bits(data[0], 2, 2) == 1, 2, 1) && result0[0] == data[0] && (bits(data[0], 2, 2) == 1 ==> result0[1] == data[1])
//@ end
func verifLemmaOBUHeaderParseMarshal(data []byte) ([]byte, error) {
	h, err := ParseOBUHeader(data)
	if err != nil {
		return nil, err
	}

	return h.Marshal(), nil
}
