package main

import (
	"bytes"
	"context"
	"encoding/json"
	"fmt"
	"go/types"
	"math/big"
	"os"
	"os/exec"
	"path/filepath"
	"sort"
	"strings"
	"time"

	"golang.org/x/tools/go/ssa"
)

// ---- model extraction -------------------------------------------------------

// rnode is one node of the input reification plan: which SMT terms to ask the
// model for, and how to turn their values into a Go expression.
type rnode struct {
	typ   types.Type
	kind  string // int bool slice ptr struct array time opaque
	terms []int  // indices into plan.terms
	kids  []*rnode
	names []string
	ghost int // index of the ghost unixnano term (time.Time), -1 if none
}

type plan struct {
	terms []string
	c     *Ctx
	H0    map[string]string
}

func (p *plan) term(t string) int {
	p.terms = append(p.terms, t)
	return len(p.terms) - 1
}

func (p *plan) cellsAt(obj, cell string, t types.Type) Val {
	ls := leaves(t)
	out := make(Val, len(ls))
	for i, l := range ls {
		out[i] = fmt.Sprintf("(select (select %s %s) (+ %s %d))", p.H0[l.kind], obj, cell, i)
	}
	return out
}

func (p *plan) build(t types.Type, v Val, depth int) *rnode {
	n := &rnode{typ: t, ghost: -1}
	if named, ok := t.(*types.Named); ok && named.Obj().Pkg() != nil && named.Obj().Pkg().Path() == "time" && named.Obj().Name() == "Time" {
		n.kind = "time"
		if p.c.decls["ghost_unixnano"] {
			n.ghost = p.term(fmt.Sprintf("(ghost_unixnano %s)", strings.Join(v, " ")))
		}
		return n
	}
	switch u := t.Underlying().(type) {
	case *types.Basic:
		switch {
		case u.Info()&types.IsBoolean != 0:
			n.kind = "bool"
		case u.Info()&types.IsInteger != 0:
			n.kind = "int"
		default:
			n.kind = "opaque"
			return n
		}
		n.terms = []int{p.term(v[0])}
	case *types.Slice:
		n.kind = "slice"
		for _, x := range v {
			n.terms = append(n.terms, p.term(x))
		}
		max := 64
		if cells(u.Elem()) > 1 {
			max = 6
		}
		if depth > 1 {
			max = max / 2
		}
		if depth > 3 {
			max = 0
		}
		st := cells(u.Elem())
		for i := 0; i < max; i++ {
			ev := p.cellsAt(v[0], fmt.Sprintf("(+ %s %d)", v[1], i*st), u.Elem())
			n.kids = append(n.kids, p.build(u.Elem(), ev, depth+1))
		}
	case *types.Pointer:
		n.kind = "ptr"
		n.terms = []int{p.term(v[0]), p.term(v[1])}
		if depth <= 3 {
			ev := p.cellsAt(v[0], v[1], u.Elem())
			n.kids = []*rnode{p.build(u.Elem(), ev, depth+1)}
		}
	case *types.Struct:
		n.kind = "struct"
		off := 0
		for i := 0; i < u.NumFields(); i++ {
			k := cells(u.Field(i).Type())
			n.kids = append(n.kids, p.build(u.Field(i).Type(), v[off:off+k], depth))
			n.names = append(n.names, u.Field(i).Name())
			off += k
		}
	case *types.Array:
		n.kind = "array"
		k := cells(u.Elem())
		for i := 0; i < int(u.Len()) && i < 16; i++ {
			n.kids = append(n.kids, p.build(u.Elem(), v[i*k:(i+1)*k], depth))
		}
	default:
		n.kind = "opaque"
	}
	return n
}

// parse the solver's (get-value ...) answer: a list of (term value) pairs, in order
func parseValues(out string, n int) ([]*big.Int, bool) {
	i := strings.Index(out, "((")
	if i < 0 {
		return nil, false
	}
	s := out[i+1:]
	var vals []*big.Int
	pos := 0
	for len(vals) < n {
		// find next top-level pair
		for pos < len(s) && s[pos] != '(' {
			if s[pos] == ')' {
				return vals, len(vals) == n
			}
			pos++
		}
		if pos >= len(s) {
			break
		}
		depth, start := 0, pos
		for pos < len(s) {
			if s[pos] == '(' {
				depth++
			} else if s[pos] == ')' {
				depth--
				if depth == 0 {
					pos++
					break
				}
			}
			pos++
		}
		pair := s[start:pos]
		// the value is the last top-level item of the pair
		inner := strings.TrimSpace(pair[1 : len(pair)-1])
		val := lastItem(inner)
		v, ok := parseIntVal(val)
		if !ok {
			v = big.NewInt(0)
		}
		vals = append(vals, v)
	}
	return vals, len(vals) == n
}

func lastItem(s string) string {
	s = strings.TrimSpace(s)
	if strings.HasSuffix(s, ")") {
		depth := 0
		for i := len(s) - 1; i >= 0; i-- {
			if s[i] == ')' {
				depth++
			} else if s[i] == '(' {
				depth--
				if depth == 0 {
					return s[i:]
				}
			}
		}
	}
	if i := strings.LastIndexAny(s, " \n\t"); i >= 0 {
		return s[i+1:]
	}
	return s
}

func parseIntVal(s string) (*big.Int, bool) {
	s = strings.TrimSpace(s)
	if strings.HasPrefix(s, "(-") {
		inner := strings.TrimSpace(strings.TrimSuffix(strings.TrimPrefix(s, "(-"), ")"))
		v, ok := new(big.Int).SetString(inner, 10)
		if !ok {
			return nil, false
		}
		return v.Neg(v), true
	}
	if s == "true" {
		return big.NewInt(1), true
	}
	if s == "false" {
		return big.NewInt(0), true
	}
	v, ok := new(big.Int).SetString(s, 10)
	return v, ok
}

// ---- rendering Go values from the model -------------------------------------

type renderer struct {
	vals    []*big.Int
	pkg     *types.Package
	imports map[string]string // path -> name
	back    map[string]*backing
	order   []string
	decls   []string
	nptr    int
	err     string
}

type backing struct {
	name   string
	elem   types.Type
	stride int
	size   int64
	fills  []string
}

func (r *renderer) qual(p *types.Package) string {
	if p == r.pkg {
		return ""
	}
	r.imports[p.Path()] = p.Name()
	return p.Name()
}

func (r *renderer) tname(t types.Type) string { return types.TypeString(t, r.qual) }

func (r *renderer) val(i int) *big.Int { return r.vals[i] }

func (r *renderer) fail(format string, a ...any) string {
	if r.err == "" {
		r.err = fmt.Sprintf(format, a...)
	}
	return "nil"
}

func (r *renderer) render(n *rnode) string {
	switch n.kind {
	case "int":
		return fmt.Sprintf("%s(%s)", r.tname(n.typ), r.intLit(n.typ, r.val(n.terms[0])))
	case "bool":
		if r.val(n.terms[0]).Sign() != 0 {
			return "true"
		}
		return "false"
	case "time":
		r.imports["time"] = "time"
		if n.ghost >= 0 {
			return fmt.Sprintf("time.Unix(0, %s)", r.val(n.ghost).String())
		}
		return "time.Time{}"
	case "struct":
		if named, ok := n.typ.(*types.Named); ok && named.Obj().Pkg() != nil && named.Obj().Pkg() != r.pkg {
			// foreign struct: unexported fields cannot be set; zero value
			return r.tname(n.typ) + "{}"
		}
		var fs []string
		for i, k := range n.kids {
			if n.names[i] == "_" {
				continue
			}
			if k.kind == "opaque" {
				continue
			}
			fs = append(fs, fmt.Sprintf("%s: %s", n.names[i], r.render(k)))
		}
		return fmt.Sprintf("%s{%s}", r.tname(n.typ), strings.Join(fs, ", "))
	case "array":
		var es []string
		for _, k := range n.kids {
			es = append(es, r.render(k))
		}
		return fmt.Sprintf("%s{%s}", r.tname(n.typ), strings.Join(es, ", "))
	case "ptr":
		obj := r.val(n.terms[0])
		if obj.Sign() == 0 {
			return fmt.Sprintf("(%s)(nil)", r.tname(n.typ))
		}
		if len(n.kids) == 0 {
			return r.fail("pointer nesting too deep")
		}
		r.nptr++
		name := fmt.Sprintf("zp%d", r.nptr)
		et := n.typ.Underlying().(*types.Pointer).Elem()
		inner := r.render(n.kids[0])
		r.decls = append(r.decls, fmt.Sprintf("%s := new(%s); *%s = %s", name, r.tname(et), name, inner))
		return name
	case "slice":
		obj, off, ln, cp := r.val(n.terms[0]), r.val(n.terms[1]), r.val(n.terms[2]), r.val(n.terms[3])
		if obj.Sign() == 0 {
			return fmt.Sprintf("%s(nil)", r.tname(n.typ))
		}
		et := n.typ.Underlying().(*types.Slice).Elem()
		st := int64(cells(et))
		if !ln.IsInt64() || ln.Int64() > int64(len(n.kids)) {
			return r.fail("model slice too long to reify (len %s, limit %d)", ln, len(n.kids))
		}
		if off.Sign() < 0 || !off.IsInt64() || off.Int64()%st != 0 || off.Int64() > 1<<20 {
			return r.fail("model slice offset %s not reifiable", off)
		}
		c := cp.Int64()
		if !cp.IsInt64() || c > 1<<16 {
			c = ln.Int64() // huge capacities are clamped (noted in the replay file)
		}
		key := obj.String() + "/" + r.tname(et)
		b := r.back[key]
		if b == nil {
			b = &backing{name: fmt.Sprintf("zb%d", len(r.back)+1), elem: et, stride: int(st)}
			r.back[key] = b
			r.order = append(r.order, key)
		}
		o := off.Int64() / st
		if o+c > b.size {
			b.size = o + c
		}
		for i := int64(0); i < ln.Int64(); i++ {
			b.fills = append(b.fills, fmt.Sprintf("%s[%d] = %s", b.name, o+i, r.render(n.kids[i])))
		}
		return fmt.Sprintf("%s[%d:%d:%d]", b.name, o, o+ln.Int64(), o+c)
	}
	return r.fail("cannot reify a value of type %s", n.typ)
}

func (r *renderer) intLit(t types.Type, v *big.Int) string {
	return v.String()
}

// ---- the replay itself --------------------------------------------------------

type replayRec struct {
	Property   string            `json:"property"`
	Obligation string            `json:"obligation"`
	Kind       string            `json:"kind"`
	At         string            `json:"at"`
	Clause     string            `json:"clause,omitempty"`
	Solver     string            `json:"solver_output"`
	Function   string            `json:"function"`
	Inputs     map[string]string `json:"model_inputs,omitempty"`
	TestFile   string            `json:"go_test,omitempty"`
	PkgDir     string            `json:"pkg_dir,omitempty"`
	Output     string            `json:"go_test_output,omitempty"`
	Confirmed  bool              `json:"confirmed"`
	How        string            `json:"how"`
	Goal       string            `json:"goal,omitempty"`
}

func (r *Report) frFor(o *Obl) *FuncResult {
	for _, fr := range r.frs {
		if fr.Name == o.Func {
			return fr
		}
	}
	return nil
}

// replay writes the replay file for a failed obligation and, when a solver
// produced a model, replays the model's inputs against the real code.
func (r *Report) replay(o *Obl, dir string, cfg *solverCfg) (string, bool) {
	path := filepath.Join(dir, sanitize(o.Name)+".json")
	rec := &replayRec{Property: r.Prop, Obligation: o.Name, Kind: o.Kind, At: o.Pos, Solver: o.Detail, Function: o.Func, How: "no model: the solvers answered unknown/timeout (quantified context) or the obligation is a missing contract target"}
	if len(o.goal) < 4000 {
		rec.Goal = o.goal
	}
	defer func() {
		data, _ := json.MarshalIndent(rec, "", " ")
		os.WriteFile(path, data, 0o644)
	}()
	fr := r.frFor(o)
	if o.Verdict != "failed-sat" || fr == nil || fr.entry == nil || o.ctx == nil {
		return path, false
	}
	func() {
		defer func() {
			if x := recover(); x != nil {
				rec.How = fmt.Sprintf("replay generation failed: %v", x)
			}
		}()
		r.replayModel(o, fr, rec, path, cfg)
	}()
	return path, rec.Confirmed
}

func (r *Report) replayModel(o *Obl, fr *FuncResult, rec *replayRec, path string, cfg *solverCfg) {
	ei := fr.entry
	pl := &plan{c: o.ctx, H0: ei.heaps}
	var roots []*rnode
	for _, sv := range ei.params {
		roots = append(roots, pl.build(sv.typ, sv.t, 0))
	}
	// small-model preference: bounded lengths first, then unconstrained
	var small, typing []string // typing: the pre-state is a well-typed Go heap (no negative lengths in fields the code never reads)
	var walk func(n *rnode)
	walk = func(n *rnode) {
		if n.kind == "slice" {
			small = append(small, fmt.Sprintf("(assert (<= %s %d))", pl.terms[n.terms[2]], len(n.kids)))
			small = append(small, fmt.Sprintf("(assert (<= %s %d))", pl.terms[n.terms[3]], 4096))
			small = append(small, fmt.Sprintf("(assert (<= %s %d))", pl.terms[n.terms[1]], 64))
			typing = append(typing, fmt.Sprintf("(assert (and (<= 0 %s) (<= 0 %s) (<= %s %s) (<= 0 %s) (=> (= %s 0) (and (= %s 0) (= %s 0)))))",
				pl.terms[n.terms[1]], pl.terms[n.terms[2]], pl.terms[n.terms[2]], pl.terms[n.terms[3]], pl.terms[n.terms[0]], pl.terms[n.terms[0]], pl.terms[n.terms[3]], pl.terms[n.terms[1]]))
		}
		if n.kind == "slice" {
			if st := cells(n.typ.Underlying().(*types.Slice).Elem()); st > 1 {
				typing = append(typing, fmt.Sprintf("(assert (= (mod %s %d) 0))", pl.terms[n.terms[1]], st))
			}
		}
		if n.kind == "ptr" {
			typing = append(typing, fmt.Sprintf("(assert (and (<= 0 %s) (<= 0 %s)))", pl.terms[n.terms[0]], pl.terms[n.terms[1]]))
		}
		if n.kind == "int" || n.kind == "bool" {
			if ls := leaves(n.typ); len(ls) == 1 {
				lo, hi := "0", pow2(ls[0].bits).String()
				if ls[0].kind == "bool" {
					hi = "2"
				} else if ls[0].signed {
					lo, hi = "(- "+pow2(ls[0].bits-1).String()+")", pow2(ls[0].bits-1).String()
				}
				typing = append(typing, fmt.Sprintf("(assert (and (<= %s %s) (< %s %s)))", lo, pl.terms[n.terms[0]], pl.terms[n.terms[0]], hi))
			}
		}
		for _, k := range n.kids {
			walk(k)
		}
	}
	for _, n := range roots {
		walk(n)
	}
	var vals []*big.Int
	var ok bool
	for attempt := 0; attempt < 2 && !ok; attempt++ {
		extra := append(append([]string{}, typing...), small...)
		if attempt == 1 {
			extra = typing
		}
		q := o.query(extra...)
		q = strings.Replace(q, zeroRowAxioms, zeroRowConst, 1)
		q = "(set-option :produce-models true)\n" + q + "(get-value (" + strings.Join(pl.terms, "\n ") + "))\n"
		file := filepath.Join(cfg.tmp, "model.smt2")
		os.WriteFile(file, []byte(q), 0o644)
		for _, solver := range []string{"z3-new", "z3"} {
			v, out, _ := runSolver(solver, file, 10, cfg.seed)
			if v == "sat" {
				vals, ok = parseValues(out, len(pl.terms))
				if ok {
					break
				}
			}
		}
	}
	if !ok {
		rec.How = "a solver answered sat but no usable model was obtained under the replay size limits"
		return
	}
	fn := ei.fn
	rd := &renderer{vals: vals, pkg: fn.Pkg.Pkg, imports: map[string]string{}, back: map[string]*backing{}}
	var args []string
	rec.Inputs = map[string]string{}
	for i, n := range roots {
		code := rd.render(n)
		args = append(args, code)
		rec.Inputs[ei.names[i]] = code
	}
	if rd.err != "" {
		rec.How = "model found but inputs could not be turned into Go values: " + rd.err
		return
	}
	src, how := r.testSource(o, fr, rd, args)
	if src == "" {
		rec.How = how
		return
	}
	testFile := strings.TrimSuffix(path, ".json") + "_test.go.txt"
	os.WriteFile(testFile, []byte(src), 0o644)
	rec.TestFile = testFile
	pkgDir := pkgDirOf(r.prog, fn)
	rec.PkgDir = pkgDir
	out, timedOut := runReplayTest(r.prog.repoDir, pkgDir, testFile)
	if len(out) > 3000 {
		out = out[len(out)-3000:]
	}
	rec.Output = out
	rec.Confirmed, rec.How = judgeReplay(o, out, timedOut, how)
}

func pkgDirOf(p *Prog, fn *ssa.Function) string {
	rel := strings.TrimPrefix(fn.Pkg.Pkg.Path(), modPath)
	return filepath.Join(p.repoDir, rel)
}

func judgeReplay(o *Obl, out string, timedOut bool, postHow string) (bool, string) {
	switch {
	case strings.Contains(out, "REPLAY-PANIC"):
		if o.Kind == "safety" || o.Kind == "ensures" || o.Kind == "requires" {
			return true, "the model's inputs make the real function panic"
		}
		return true, "the model's inputs make the real function panic (obligation kind " + o.Kind + ")"
	case timedOut && o.Kind == "decreases":
		return true, "the model's inputs make the real function run past the replay timeout"
	case strings.Contains(out, "REPLAY-POST: false"):
		return true, "the real function returns normally on the model's inputs and the clause evaluates to false on the result"
	case strings.Contains(out, ": false") && strings.Contains(out, "REPLAY-ENSURES"):
		var which []string
		for _, ln := range strings.Split(out, "\n") {
			if strings.HasPrefix(ln, "REPLAY-ENSURES ") && strings.HasSuffix(strings.TrimSpace(ln), ": false") {
				which = append(which, strings.TrimSuffix(strings.TrimPrefix(strings.TrimSpace(ln), "REPLAY-ENSURES "), ": false"))
			}
		}
		return true, "the real function returns normally on the model's inputs and violates its postcondition(s) " + strings.Join(which, ", ")
	case strings.Contains(out, "REPLAY-POST: true"):
		return false, "the real function returns normally on the model's inputs and the clause holds there (the model depends on aliasing, capacities or havocked state that the replay does not reproduce)"
	case strings.Contains(out, "REPLAY-RETURNED"):
		return false, "the real function returns normally on the model's inputs; " + postHow
	}
	return false, "the replay test did not run to completion (see go_test_output)"
}

func runReplayTest(repoDir, pkgDir, testFile string) (string, bool) {
	tmp, _ := os.MkdirTemp("", "rtpverify-replay")
	defer os.RemoveAll(tmp)
	dst := filepath.Join(pkgDir, "zz_verif_replay_test.go")
	ov := map[string]map[string]string{"Replace": {dst: testFile}}
	data, _ := json.Marshal(ov)
	ovFile := filepath.Join(tmp, "ov.json")
	os.WriteFile(ovFile, data, 0o644)
	ctx, cancel := context.WithTimeout(context.Background(), 150*time.Second)
	defer cancel()
	cmd := exec.CommandContext(ctx, "go", "test", "-tags", "verif", "-overlay", ovFile, "-vet=off", "-count=1", "-timeout", "60s", "-run", "TestZZVerifReplay", "-v", ".")
	cmd.Dir = pkgDir
	cmd.Env = append(os.Environ(), "GOFLAGS=-mod=mod", "GOPROXY=off", "GOSUMDB=off", "GOTOOLCHAIN=local")
	var buf bytes.Buffer
	cmd.Stdout = &buf
	cmd.Stderr = &buf
	cmd.Run()
	out := buf.String()
	return out, strings.Contains(out, "test timed out") || ctx.Err() != nil
}

// testSource renders the in-package replay test.
func (r *Report) testSource(o *Obl, fr *FuncResult, rd *renderer, args []string) (string, string) {
	ei := fr.entry
	fn := ei.fn
	sig := fn.Signature
	var b strings.Builder
	// construction of the inputs (twice: the second copy stays pristine for old())
	var mk strings.Builder
	for _, key := range rd.order {
		bk := rd.back[key]
		sz := bk.size
		if sz < 1 {
			sz = 1
		}
		fmt.Fprintf(&mk, "\t\t%s := make([]%s, %d)\n", bk.name, rd.tname(bk.elem), sz)
	}
	// fills may reference pointer decls and vice versa: decls first, then fills
	for _, d := range rd.decls {
		fmt.Fprintf(&mk, "\t\t%s\n", d)
	}
	for _, key := range rd.order {
		for _, f := range rd.back[key].fills {
			fmt.Fprintf(&mk, "\t\t%s\n", f)
		}
	}
	for _, key := range rd.order {
		fmt.Fprintf(&mk, "\t\tzzRegister(%s)\n", rd.back[key].name)
	}
	var ptypes, pnames, onames []string
	for i, sv := range ei.params {
		ptypes = append(ptypes, rd.tname(sv.typ))
		nm := ei.names[i]
		if nm == "" || nm == "_" {
			nm = fmt.Sprintf("zarg%d", i)
		}
		pnames = append(pnames, nm)
		onames = append(onames, "old_"+nm)
	}
	// results
	var rnames, rtypes []string
	for i := 0; i < sig.Results().Len(); i++ {
		rnames = append(rnames, fmt.Sprintf("result%d", i))
		rtypes = append(rtypes, rd.tname(sig.Results().At(i).Type()))
	}
	// the call
	var call string
	if sig.Recv() != nil {
		call = fmt.Sprintf("%s.%s(%s)", pnames[0], fn.Name(), strings.Join(pnames[1:], ", "))
	} else {
		call = fmt.Sprintf("%s(%s)", fn.Name(), strings.Join(pnames, ", "))
	}
	if len(rnames) > 0 {
		call = strings.Join(rnames, ", ") + " = " + call
	}
	// postcondition
	post, postHow := "", "the failed obligation is not an `ensures` clause; the function's postconditions are evaluated on the outcome instead"
	var tr *goTrans
	if fr.Spec != nil {
		tr = &goTrans{r: rd, fn: fn, prog: r.prog, params: map[string]types.Type{}, results: map[string]types.Type{}}
		for i, sv := range ei.params {
			tr.params[pnames[i]] = sv.typ
			if ei.names[i] != pnames[i] {
				tr.alias = map[string]string{ei.names[i]: pnames[i]}
			}
		}
		for i := 0; i < sig.Results().Len(); i++ {
			rt := sig.Results().At(i).Type()
			tr.results[fmt.Sprintf("result%d", i)] = rt
			if i == 0 {
				tr.resAlias = map[string]string{"result": "result0"}
			}
			if nm := sig.Results().At(i).Name(); nm != "" && nm != "_" {
				if tr.resAlias == nil {
					tr.resAlias = map[string]string{}
				}
				tr.resAlias[nm] = fmt.Sprintf("result%d", i)
			}
			if i == sig.Results().Len()-1 && isErrorType(rt) {
				if tr.resAlias == nil {
					tr.resAlias = map[string]string{}
				}
				if _, ok := tr.resAlias["err"]; !ok {
					tr.resAlias["err"] = fmt.Sprintf("result%d", i)
				}
			}
		}
		if cl := clauseFor(fr.Spec, o); cl != nil && o.Kind == "ensures" {
			code, err := tr.boolExpr(cl)
			if err != nil {
				postHow = "the clause could not be translated to Go for evaluation: " + err.Error()
			} else {
				post = code
				postHow = ""
			}
		}
	}
	// whatever obligation failed, the function's own postconditions are evaluated on the
	// real outcome as well: a model that is a genuine input shows up there
	var others []string
	if fr.Spec != nil && tr != nil {
		for _, en := range fr.Spec.Ensures {
			for pi, part := range splitConj(en.Expr) {
				if code, err := tr.boolExpr(part); err == nil {
					others = append(others, fmt.Sprintf("\tif p := zzCatch(func() { fmt.Printf(\"REPLAY-ENSURES %s/%d: %%v\\n\", %s) }); p != nil {\n\t\tfmt.Printf(\"REPLAY-ENSURES-EVAL-PANIC %s/%d: %%v\\n\", p)\n\t}\n", en.Label, pi+1, code, en.Label, pi+1))
				}
			}
		}
	}
	// imports
	rd.imports["testing"] = "testing"
	rd.imports["fmt"] = "fmt"
	rd.imports["math/big"] = "big"
	rd.imports["reflect"] = "reflect"
	rd.imports["unsafe"] = "unsafe"
	rd.imports["errors"] = "errors"
	var imps []string
	for p := range rd.imports {
		imps = append(imps, p)
	}
	sort.Strings(imps)
	fmt.Fprintf(&b, "//go:build verif\n\n// Generated by rtpverify: replay of a solver model against the real code.\n// obligation: %s\npackage %s\n\nimport (\n", o.Name, fn.Pkg.Pkg.Name())
	for _, p := range imps {
		fmt.Fprintf(&b, "\t%q\n", p)
	}
	fmt.Fprintf(&b, ")\n\n")
	fmt.Fprintf(&b, "func TestZZVerifReplay(zzT *testing.T) {\n")
	fmt.Fprintf(&b, "\tmk := func() (%s) {\n%s\t\treturn %s\n\t}\n", strings.Join(ptypes, ", "), mk.String(), strings.Join(args, ", "))
	fmt.Fprintf(&b, "\t%s := mk()\n", strings.Join(pnames, ", "))
	fmt.Fprintf(&b, "\t%s := mk()\n", strings.Join(onames, ", "))
	for _, n := range append(append([]string{}, pnames...), onames...) {
		fmt.Fprintf(&b, "\t_ = %s\n", n)
	}
	for i := range rnames {
		fmt.Fprintf(&b, "\tvar %s %s\n\t_ = %s\n", rnames[i], rtypes[i], rnames[i])
	}
	fmt.Fprintf(&b, "\tif p := zzCatch(func() { %s }); p != nil {\n\t\tfmt.Printf(\"REPLAY-PANIC: %%v\\n\", p)\n\t\treturn\n\t}\n", call)
	fmt.Fprintf(&b, "\tfmt.Println(\"REPLAY-RETURNED\")\n")
	for i := range rnames {
		fmt.Fprintf(&b, "\tfmt.Printf(\"REPLAY-RESULT %s = %%#v\\n\", %s)\n", rnames[i], rnames[i])
	}
	if post != "" {
		fmt.Fprintf(&b, "\tif p := zzCatch(func() { fmt.Printf(\"REPLAY-POST: %%v\\n\", %s) }); p != nil {\n\t\tfmt.Printf(\"REPLAY-POST-EVAL-PANIC: %%v\\n\", p)\n\t}\n", post)
	}
	for _, x := range others {
		b.WriteString(x)
	}
	fmt.Fprintf(&b, "}\n\n%s", replayPrelude)
	return b.String(), postHow
}

// clauseFor finds the (split) clause an ensures obligation checks.
func clauseFor(sp *FuncSpec, o *Obl) *SExpr {
	lbl := o.Label
	part := 0
	if i := strings.LastIndex(lbl, "/"); i >= 0 {
		fmt.Sscan(lbl[i+1:], &part)
		lbl = lbl[:i]
	}
	for _, en := range sp.Ensures {
		if en.Label == lbl {
			parts := splitConj(en.Expr)
			if part >= 1 && part <= len(parts) {
				return parts[part-1]
			}
			return en.Expr
		}
	}
	return nil
}

func cmdReplay(verifDir, repoDir string, args []string) int {
	if len(args) < 1 {
		fmt.Println("usage: rtpverify replay <replay.json>")
		return 2
	}
	data, err := os.ReadFile(args[0])
	if err != nil {
		fmt.Println("cannot read", args[0], err)
		return 2
	}
	var rec replayRec
	if err := json.Unmarshal(data, &rec); err != nil {
		fmt.Println("bad replay file:", err)
		return 2
	}
	fmt.Printf("obligation: %s (%s)\nproperty: %s\nrecorded: confirmed=%v (%s)\n", rec.Obligation, rec.Kind, rec.Property, rec.Confirmed, rec.How)
	if rec.TestFile == "" {
		fmt.Println("no replayable input was recorded for this obligation; solver output:", rec.Solver)
		return 0
	}
	pkgDir := rec.PkgDir
	out, _ := runReplayTest(repoDir, pkgDir, rec.TestFile)
	fmt.Println(out)
	if strings.Contains(out, "REPLAY-PANIC") || strings.Contains(out, "REPLAY-POST: false") {
		fmt.Println("REPLAY: violation reproduced on the current tree")
		return 1
	}
	fmt.Println("REPLAY: not reproduced on the current tree")
	return 0
}

const replayPrelude = `
type zzRange struct{ lo, hi uintptr }

var zzInputs []zzRange

func zzRegister(s any) {
	v := reflect.ValueOf(s)
	if v.Kind() != reflect.Slice || v.Cap() == 0 {
		return
	}
	lo := v.Pointer()
	zzInputs = append(zzInputs, zzRange{lo, lo + uintptr(v.Cap())*v.Type().Elem().Size()})
}

func zzCatch(f func()) (p any) {
	defer func() { p = recover() }()
	f()
	return nil
}

func zzOf(x any) *big.Int {
	v := reflect.ValueOf(x)
	switch v.Kind() {
	case reflect.Int, reflect.Int8, reflect.Int16, reflect.Int32, reflect.Int64:
		return big.NewInt(v.Int())
	case reflect.Uint, reflect.Uint8, reflect.Uint16, reflect.Uint32, reflect.Uint64, reflect.Uintptr:
		return new(big.Int).SetUint64(v.Uint())
	case reflect.Bool:
		if v.Bool() {
			return big.NewInt(1)
		}
		return big.NewInt(0)
	}
	if b, ok := x.(*big.Int); ok {
		return b
	}
	panic(fmt.Sprintf("zzOf: %T", x))
}
func zzN(s string) *big.Int    { v, _ := new(big.Int).SetString(s, 10); return v }
func zzAdd(a, b *big.Int) *big.Int { return new(big.Int).Add(a, b) }
func zzSub(a, b *big.Int) *big.Int { return new(big.Int).Sub(a, b) }
func zzMul(a, b *big.Int) *big.Int { return new(big.Int).Mul(a, b) }
func zzDiv(a, b *big.Int) *big.Int { // SMT-LIB div (euclidean)
	if b.Sign() == 0 {
		return big.NewInt(0)
	}
	q, _ := new(big.Int).DivMod(a, b, new(big.Int))
	return q
}
func zzMod(a, b *big.Int) *big.Int {
	if b.Sign() == 0 {
		return a
	}
	_, m := new(big.Int).DivMod(a, b, new(big.Int))
	return m
}
func zzWrap(a *big.Int, bits uint, signed bool) *big.Int {
	m := new(big.Int).Lsh(big.NewInt(1), bits)
	r := zzMod(a, m)
	if signed && r.Cmp(new(big.Int).Lsh(big.NewInt(1), bits-1)) >= 0 {
		r.Sub(r, m)
	}
	return r
}
func zzBits(a *big.Int, hi, lo uint) *big.Int {
	r := new(big.Int).Rsh(zzMod(a, new(big.Int).Lsh(big.NewInt(1), 200)), lo)
	return r.And(r, new(big.Int).Sub(new(big.Int).Lsh(big.NewInt(1), hi-lo+1), big.NewInt(1)))
}
func zzBE(s []byte, i *big.Int, n int) *big.Int {
	r := new(big.Int)
	k := int(i.Int64())
	for j := 0; j < n; j++ {
		r.Lsh(r, 8)
		r.Or(r, big.NewInt(int64(s[k+j])))
	}
	return r
}
func zzIdx(i *big.Int) int {
	if !i.IsInt64() {
		panic("index out of int range")
	}
	return int(i.Int64())
}
func zzIte[T any](c bool, a, b func() T) T {
	if c {
		return a()
	}
	return b()
}
func zzMin(a, b *big.Int) *big.Int {
	if a.Cmp(b) <= 0 {
		return a
	}
	return b
}
func zzMax(a, b *big.Int) *big.Int {
	if a.Cmp(b) >= 0 {
		return a
	}
	return b
}
func zzBv(b bool) *big.Int {
	if b {
		return big.NewInt(1)
	}
	return big.NewInt(0)
}
func zzForall(lo, hi *big.Int, f func(i *big.Int) bool) bool {
	if new(big.Int).Sub(hi, lo).Cmp(big.NewInt(200000)) > 0 {
		panic("quantifier range too large to evaluate")
	}
	for i := new(big.Int).Set(lo); i.Cmp(hi) < 0; i = new(big.Int).Add(i, big.NewInt(1)) {
		if !f(i) {
			return false
		}
	}
	return true
}
func zzExists(lo, hi *big.Int, f func(i *big.Int) bool) bool {
	return !zzForall(lo, hi, func(i *big.Int) bool { return !f(i) })
}
func zzSpan(s any) (lo, hi, capEnd uintptr, isNil bool) {
	v := reflect.ValueOf(s)
	switch v.Kind() {
	case reflect.Slice:
		if v.IsNil() {
			return 0, 0, 0, true
		}
		sz := v.Type().Elem().Size()
		lo = v.Pointer()
		return lo, lo + uintptr(v.Len())*sz, lo + uintptr(v.Cap())*sz, false
	case reflect.Ptr:
		if v.IsNil() {
			return 0, 0, 0, true
		}
		lo = v.Pointer()
		return lo, lo + v.Type().Elem().Size(), lo + v.Type().Elem().Size(), false
	}
	panic(fmt.Sprintf("zzSpan: %T", s))
}
func zzInput(lo uintptr) (zzRange, bool) {
	for _, r := range zzInputs {
		if lo >= r.lo && lo < r.hi || (lo == r.hi && lo == r.lo) {
			return r, true
		}
	}
	return zzRange{}, false
}
func zzFresh(s any) bool {
	lo, _, _, isNil := zzSpan(s)
	if isNil {
		return true
	}
	_, in := zzInput(lo)
	return !in
}
func zzSameObj(a, b any) bool {
	la, _, ca, na := zzSpan(a)
	lb, _, cb, nb := zzSpan(b)
	if na || nb {
		return na && nb
	}
	ra, ina := zzInput(la)
	rb, inb := zzInput(lb)
	if ina || inb {
		return ina && inb && ra == rb
	}
	return la < cb && lb < ca || la == lb
}
func zzOff(s any) *big.Int {
	v := reflect.ValueOf(s)
	lo, _, _, isNil := zzSpan(s)
	if isNil {
		return big.NewInt(0)
	}
	if r, ok := zzInput(lo); ok {
		sz := uintptr(1)
		if v.Kind() == reflect.Slice {
			sz = v.Type().Elem().Size()
		}
		return big.NewInt(int64((lo - r.lo) / sz))
	}
	return big.NewInt(0)
}
func zzWithin(a, b any) bool {
	la, ha, _, na := zzSpan(a)
	lb, hb, _, nb := zzSpan(b)
	if na {
		return reflect.ValueOf(a).Len() == 0
	}
	if nb {
		return false
	}
	return lb <= la && ha <= hb
}
func zzEqSeq(a any, ai *big.Int, b any, bi *big.Int, n *big.Int) bool {
	va, vb := reflect.ValueOf(a), reflect.ValueOf(b)
	for k := 0; k < zzIdx(n); k++ {
		if zzOf(va.Index(zzIdx(ai)+k).Interface()).Cmp(zzOf(vb.Index(zzIdx(bi)+k).Interface())) != 0 {
			return false
		}
	}
	return true
}
func zzSameScalars(a, b any) bool {
	return zzScalars(reflect.ValueOf(a), reflect.ValueOf(b))
}
func zzScalars(a, b reflect.Value) bool {
	switch a.Kind() {
	case reflect.Struct:
		for i := 0; i < a.NumField(); i++ {
			if !zzScalars(a.Field(i), b.Field(i)) {
				return false
			}
		}
	case reflect.Array:
		for i := 0; i < a.Len(); i++ {
			if !zzScalars(a.Index(i), b.Index(i)) {
				return false
			}
		}
	case reflect.Bool:
		return a.Bool() == b.Bool()
	case reflect.Int, reflect.Int8, reflect.Int16, reflect.Int32, reflect.Int64:
		return a.Int() == b.Int()
	case reflect.Uint, reflect.Uint8, reflect.Uint16, reflect.Uint32, reflect.Uint64:
		return a.Uint() == b.Uint()
	}
	return true
}

var _ = unsafe.Pointer(nil)
var _ = errors.New
`
