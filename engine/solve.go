package main

import (
	"bytes"
	"sync/atomic"
	"strconv"
	"context"
	"fmt"
	"os"
	"os/exec"
	"path/filepath"
	"strings"
	"sync"
	"time"
)

type solverCfg struct {
	quickTO   int // seconds per query, first solver
	fallback  int // seconds per query for the other solvers
	seed      int
	workers   int
	tmp       string
	keepFiles bool
	failFast  int
}

const zeroRowAxioms = "(declare-const zeroRow (Array Int Int))\n(assert (forall ((x Int)) (! (= (select zeroRow x) 0) :pattern ((select zeroRow x)))))\n"
const zeroRowConst = "(define-fun zeroRow () (Array Int Int) ((as const (Array Int Int)) 0))\n"

func verdictOf(out string) string {
	for _, ln := range strings.Split(out, "\n") {
		ln = strings.TrimSpace(ln)
		switch ln {
		case "sat", "unsat", "unknown", "timeout":
			return ln
		}
	}
	return "error"
}

func runSolver(name string, file string, to int, seed int) (string, string, float64) {
	return runSolverCtx(context.Background(), name, file, to, seed)
}

func runSolverCtx(parent context.Context, name string, file string, to int, seed int) (string, string, float64) {
	var cmd *exec.Cmd
	ctx, cancel := context.WithTimeout(parent, time.Duration(to+5)*time.Second)
	defer cancel()
	switch name {
	case "cvc5":
		f5 := file
		if _, err := os.Stat(file + ".cvc5"); err == nil {
			f5 = file + ".cvc5"
		}
		cmd = exec.CommandContext(ctx, "cvc5", fmt.Sprintf("--tlimit=%d", to*1000), "--enum-inst", "--lang=smt2", fmt.Sprintf("--seed=%d", seed), f5)
	case "z3":
		cmd = exec.CommandContext(ctx, "z3", fmt.Sprintf("-T:%d", to), fmt.Sprintf("smt.random_seed=%d", seed), file)
	default:
		cmd = exec.CommandContext(ctx, "z3-new", fmt.Sprintf("-T:%d", to), fmt.Sprintf("smt.random_seed=%d", seed), file)
	}
	t := time.Now()
	var buf bytes.Buffer
	cmd.Stdout = &buf
	cmd.Stderr = &buf
	cmd.Run()
	out := buf.String()
	return verdictOf(out), out, time.Since(t).Seconds()
}

func (o *Obl) query(extra ...string) string {
	var sb strings.Builder
	sb.WriteString("(set-logic ALL)\n")
	tags := o.ctx.tags
	for i, l := range o.ctx.lines[:o.at] {
		if t := tags[i]; t != 0 && o.hist != nil && o.hist.Bit(int(t)) == 0 {
			continue // emitted on a path that cannot reach this obligation
		}
		sb.WriteString(l)
		sb.WriteByte('\n')
	}
	for _, x := range o.extra {
		sb.WriteString(x)
		sb.WriteByte('\n')
	}
	for _, x := range extra {
		sb.WriteString(x)
		sb.WriteByte('\n')
	}
	sb.WriteString("(assert (not " + o.goal + "))\n(check-sat)\n")
	return sb.String()
}

// discharge decides one obligation with the portfolio. An `unsat` from any
// solver discharges it; a `sat` from one solver against an `unsat` from
// another is reported as an engine error by the caller (Verdict "conflict").
func dischargeOnce(o *Obl, cfg *solverCfg, idx int, extra ...string) {
	file := filepath.Join(cfg.tmp, fmt.Sprintf("q%d.smt2", idx))
	if cfg.keepFiles {
		file = filepath.Join(cfg.tmp, fmt.Sprintf("%s.q%d.smt2", sanitize(o.Name), idx))
	}
	qtext := o.query(extra...)
	// z3 gets the zero row as a constant array (no quantifier: failed goals then come
	// back `sat` with a model); cvc5, whose array solver rejects chains over constant
	// arrays, keeps the axiomatised one
	z3text := strings.Replace(qtext, zeroRowAxioms, zeroRowConst, 1)
	o.hasQuant = strings.Contains(z3text, "(forall ")
	os.WriteFile(file, []byte(z3text), 0o644)
	os.WriteFile(file+".cvc5", []byte(qtext), 0o644)
	if !cfg.keepFiles {
		defer os.Remove(file + ".cvc5")
	}
	if !cfg.keepFiles {
		defer os.Remove(file)
	}
	if o.Expect == "sat" {
		// vacuity canary: must NOT be provable
		v, _, secs := runSolver("z3-new", file, 2, cfg.seed)
		o.Backend, o.Secs = "z3-new", secs
		if v == "unsat" {
			o.Verdict = "vacuous"
		} else {
			o.Verdict = "ok"
		}
		return
	}
	if o.shortFirst {
		c2 := *cfg
		c2.quickTO, c2.fallback = 4, 4
		cfg = &c2
	}
	// staged race: z3-new starts at once; if it has not answered after one
	// second, cvc5 and z3 4.8 join. The first unsat wins and stops the rest.
	type r struct {
		name, v, out string
		secs         float64
	}
	ctx, cancel := context.WithCancel(context.Background())
	defer cancel()
	ch := make(chan r, 8)
	start := func(name string, to int) {
		go func() {
			seed := cfg.seed
			base := name
			if i := strings.Index(name, "#"); i >= 0 { // extra z3-new runs with other random seeds
				base = name[:i]
				k, _ := strconv.Atoi(name[i+1:])
				seed = cfg.seed + 7919*k
			}
			v, out, secs := runSolverCtx(ctx, base, file, to, seed)
			ch <- r{name, v, out, secs}
		}()
	}
	start("z3-new", cfg.quickTO)
	pending := 1
	others := false
	cvc5Started := false
	if o.hasQuant {
		// quantified context: cvc5's instantiation is often the faster one, race it from the start
		start("cvc5", cfg.fallback)
		pending++
		cvc5Started = true
	}
	timer := time.NewTimer(1500 * time.Millisecond)
	timer2 := time.NewTimer(4 * time.Second)
	defer timer2.Stop()
	extras := false
	defer timer.Stop()
	detail := ""
	sawSat := false
	t0 := time.Now()
	for pending > 0 {
		select {
		case <-timer.C:
			if !others {
				others = true
				if !cvc5Started {
					start("cvc5", cfg.fallback)
					pending++
				}
				start("z3", cfg.fallback)
				pending++
			}
		case <-timer2.C:
			if !extras {
				extras = true
				start("z3-new#1", cfg.fallback)
				start("z3-new#2", cfg.fallback)
				pending += 2
			}
		case x := <-ch:
			pending--
			if detail != "" {
				detail += "; "
			}
			detail += x.name + ": " + x.v
			if x.v == "error" {
				detail += " " + firstLine(x.out)
			}
			if x.v == "sat" {
				sawSat = true
				if cfg.failFast > 0 {
					// quick tier: a model settles it; the other solvers are not waited for
					o.Secs = time.Since(t0).Seconds()
					o.Detail = detail
					o.Verdict = "failed-sat"
					return
				}
			}
			if x.v == "unsat" {
				o.Verdict, o.Backend = "discharged", strings.SplitN(x.name, "#", 2)[0]
				o.Secs = time.Since(t0).Seconds()
				o.Detail = detail
				if sawSat {
					o.Verdict = "conflict"
				}
				return
			}
			if !others && pending == 0 {
				// z3-new answered (sat/unknown) within the first second: ask the others too
				others = true
				if !cvc5Started {
					start("cvc5", cfg.fallback)
					pending++
				}
				start("z3", cfg.fallback)
				pending++
			}
		}
	}
	o.Secs = time.Since(t0).Seconds()
	o.Detail = detail
	if sawSat {
		o.Verdict = "failed-sat"
	} else {
		o.Verdict = "failed-unknown"
	}
}

func firstLine(s string) string {
	s = strings.TrimSpace(s)
	if i := strings.Index(s, "\n"); i >= 0 {
		s = s[:i]
	}
	if len(s) > 200 {
		s = s[:200]
	}
	return s
}

func dischargeAll(obls []*Obl, cfg *solverCfg) {
	var wg sync.WaitGroup
	sem := make(chan struct{}, cfg.workers)
	var failed int32
	for i, o := range obls {
		wg.Add(1)
		go func(i int, o *Obl) {
			defer wg.Done()
			sem <- struct{}{}
			defer func() { <-sem }()
			// quick tier fails fast: once a few obligations have definitely failed the verdict
			// of the run is settled; what has not been started is reported as not run
			if cfg.failFast > 0 && atomic.LoadInt32(&failed) >= int32(cfg.failFast) && o.Expect != "sat" {
				o.Verdict, o.Detail = "not-run", "skipped: the run had already failed (quick tier stops early)"
				return
			}
			discharge(o, cfg, i)
			if strings.HasPrefix(o.Verdict, "failed") && !o.shortFirst {
				atomic.AddInt32(&failed, 1)
			}
		}(i, o)
	}
	wg.Wait()
}

// discharge decides an obligation; when the plain query is not answered and
// the obligation follows one or two appends, it is retried once per case of
// "the append was in place / it reallocated" (all cases must be unsat).
func discharge(o *Obl, cfg *solverCfg, idx int, extra ...string) {
	var conds []string
	if o.ctx != nil && o.Expect != "sat" {
		napp := 0
		for i := len(o.ctx.caseConds) - 1; i >= 0 && napp < 2; i-- {
			cc := o.ctx.caseConds[i]
			if cc.at <= o.at && (o.hist == nil || o.hist.Bit(int(cc.visit)) == 1) {
				conds = append(conds, cc.term)
				napp++
				// a quantified goal over the elements: is it the element just appended?
				if o.sk0 != "" && napp == 1 && !strings.HasPrefix(o.sk0, "sk_eqseq") {
					conds = append(conds, fmt.Sprintf("(= %s %s)", o.sk0, cc.lenTerm))
				}
			}
		}
	}
	if len(conds) == 0 {
		dischargeOnce(o, cfg, idx, extra...)
		return
	}
	if o.shortFirst {
		// expected to fail (a recorded finding): every attempt, case splits included, is short
		cs := *cfg
		cs.quickTO, cs.fallback = 4, 4
		cfg = &cs
	}
	c1 := *cfg
	if c1.quickTO > 4 {
		c1.quickTO, c1.fallback = 4, 4
	}
	dischargeOnce(o, &c1, idx, extra...)
	if o.Verdict == "discharged" || o.Verdict == "conflict" || o.Verdict == "failed-sat" {
		return
	}
	first := o.Detail
	total := o.Secs
	n := 1 << len(conds)
	for m := 0; m < n; m++ {
		ex := append([]string{}, extra...)
		for k, t := range conds {
			if m&(1<<k) != 0 {
				ex = append(ex, "(assert "+t+")")
			} else {
				ex = append(ex, "(assert (not "+t+"))")
			}
		}
		o2 := *o
		o2.Verdict, o2.Detail = "", ""
		dischargeOnce(&o2, cfg, idx*8+m+1000000, ex...)
		total += o2.Secs
		if o2.Verdict != "discharged" {
			o.Verdict, o.Detail, o.Secs = o2.Verdict, first+"; case "+strings.Join(ex[len(extra):], " ")+": "+o2.Detail, total
			return
		}
		o.Backend = o2.Backend
	}
	o.Verdict, o.Secs = "discharged", total
	o.Detail = first + "; discharged by case split on append in-place/growth"
	o.Backend += "+cases"
}
