#!/bin/sh
# usage: tools/seedtest.sh <seed-dir-name> [property]   e.g. tools/seedtest.sh C17-1
# Applies /verif/seeded/<name>/patch.diff to /repo, runs the property's quick check,
# always restores /repo. Prints DETECTED / MISSED.
cd /verif
name=$1
prop=${2:-$(echo $name | cut -d- -f1)}
if ! git -C /repo diff --quiet; then echo "refusing: /repo has uncommitted changes"; exit 3; fi
if ! git -C /repo apply /verif/seeded/$name/patch.diff 2>/tmp/seedtest.err; then
  # patches are relative to the pinned commit; try a 3-way apply on top of later fix: commits
  if ! git -C /repo apply -3 /verif/seeded/$name/patch.diff 2>>/tmp/seedtest.err; then echo "$name: PATCH-DOES-NOT-APPLY"; git -C /repo reset -q --hard HEAD; exit 4; fi
fi
cp evidence/$prop.json /tmp/seedtest.evidence.$prop.json 2>/dev/null
VERIF_DIR=/verif bin/rtpverify check $prop > /tmp/seedtest.$name.out 2>&1
rc=$?
cp /tmp/seedtest.evidence.$prop.json evidence/$prop.json 2>/dev/null
git -C /repo reset -q --hard HEAD
if [ $rc -eq 1 ]; then echo "$name: DETECTED by $prop ($(grep -c '^VIOLATION' /tmp/seedtest.$name.out) violation lines)"; grep '^VIOLATION' /tmp/seedtest.$name.out | sed 's/replay=[^ ]* //' | cut -c1-220 | head -4
elif [ $rc -eq 0 ]; then echo "$name: MISSED by $prop"; else echo "$name: ENGINE-ERROR rc=$rc"; grep ENGINE-ERROR /tmp/seedtest.$name.out | head -3; fi
