package main

import (
	"os"
	"fmt"
	"go/constant"
	"go/token"
	"go/types"
	"math/big"
	"strings"

	"golang.org/x/tools/go/ssa"
)

// SV is the value of a spec expression: a Go-typed tuple (typ != nil), a
// mathematical integer (typ == nil, !isBool) or a proposition (isBool).
type SV struct {
	t      Val
	typ    types.Type
	isBool bool
}

type Env struct {
	x      *Exec
	fn     *ssa.Function // scope for package-level names
	cur    *State
	old    *State
	vars   map[string]SV
	oldEnv *Env // bindings used under old(...)
	locals bool // resolve identifiers to the current values of local variables first (loop invariants)
	depth  int
	unfold bool // expand the outermost opaque function application (reveal)
	hyp    bool // the clause is being assumed (quantified bodies may carry typing facts)
	bound  map[string]bool // quantifier-bound names shadow program variables
	free   map[string]SV   // captured variables of a closure under contract: name -> pointer to the variable's cell
}

func specFail(format string, a ...any) { panic(engineError{"spec: " + fmt.Sprintf(format, a...)}) }

func mathInt(t string) SV  { return SV{t: Val{t}} }
func mathBool(t string) SV { return SV{t: Val{t}, isBool: true} }

func (env *Env) c() *Ctx { return env.x.c }

func isIntType(t types.Type) bool {
	b, ok := t.Underlying().(*types.Basic)
	return ok && b.Info()&types.IsInteger != 0
}
func isBoolType(t types.Type) bool {
	b, ok := t.Underlying().(*types.Basic)
	return ok && b.Info()&types.IsBoolean != 0
}

func (env *Env) asInt(v SV, what string) string {
	if v.typ == nil && !v.isBool {
		return v.t[0]
	}
	if v.typ != nil && isIntType(v.typ) {
		return v.t[0]
	}
	specFail("%s: integer expected, got %v", what, describe(v))
	return ""
}

func describe(v SV) string {
	if v.isBool {
		return "bool"
	}
	if v.typ == nil {
		return "int"
	}
	return v.typ.String()
}

func (env *Env) asBool(v SV, what string) string {
	if v.isBool {
		return v.t[0]
	}
	if v.typ != nil && isBoolType(v.typ) {
		return env.x.intToBool(v.t[0])
	}
	specFail("%s: bool expected, got %v", what, describe(v))
	return ""
}

func (env *Env) evalBool(x *SExpr) string { return env.asBool(env.eval(x), x.String()) }
func (env *Env) evalInt(x *SExpr) string  { return env.asInt(env.eval(x), x.String()) }

func (env *Env) eval(x *SExpr) SV {
	c := env.c()
	switch x.Op {
	case "num":
		return mathInt(lit(x.Num))
	case "ident":
		return env.ident(x.Name)
	case "un":
		switch x.Name {
		case "!":
			return mathBool(c.not(env.evalBool(x.Args[0])))
		case "-":
			return mathInt(c.I("(- %s)", env.evalInt(x.Args[0])))
		case "*":
			p := env.eval(x.Args[0])
			pt, ok := p.typ.Underlying().(*types.Pointer)
			if !ok {
				specFail("deref of non-pointer %s", x.Args[0])
			}
			return SV{t: env.peek(p.t[0], p.t[1], pt.Elem()), typ: pt.Elem()}
		}
	case "bin":
		return env.binary(x)
	case "sel":
		return env.selector(x)
	case "index":
		base := env.eval(x.Args[0])
		idx := env.evalInt(x.Args[1])
		switch bt := base.typ.Underlying().(type) {
		case *types.Slice:
			n := cells(bt.Elem())
			return SV{t: env.peek(base.t[0], c.add(base.t[1], c.mulK(idx, n)), bt.Elem()), typ: bt.Elem()}
		case *types.Array:
			n := cells(bt.Elem())
			if k, ok := new(big.Int).SetString(idx, 10); ok {
				i := int(k.Int64())
				return SV{t: base.t[i*n : (i+1)*n], typ: bt.Elem()}
			}
			res := make(Val, n)
			for j := 0; j < n; j++ {
				cur := base.t[j]
				for k := 1; k < int(bt.Len()); k++ {
					cur = c.ite("Int", c.B("(= %s %d)", idx, k), base.t[k*n+j], cur)
				}
				res[j] = cur
			}
			return SV{t: res, typ: bt.Elem()}
		case *types.Pointer:
			if at, ok := bt.Elem().Underlying().(*types.Array); ok {
				n := cells(at.Elem())
				return SV{t: env.peek(base.t[0], c.add(base.t[1], c.mulK(idx, n)), at.Elem()), typ: at.Elem()}
			}
		}
		specFail("cannot index %s", describe(base))
	case "slice":
		base := env.eval(x.Args[0])
		st, ok := base.typ.Underlying().(*types.Slice)
		if !ok {
			specFail("cannot slice %s", describe(base))
		}
		lo, hi := "0", base.t[2]
		if x.Args[1] != nil {
			lo = env.evalInt(x.Args[1])
		}
		if x.Args[2] != nil {
			hi = env.evalInt(x.Args[2])
		}
		n := cells(st.Elem())
		return SV{t: Val{base.t[0], c.add(base.t[1], c.mulK(lo, n)), c.I("(- %s %s)", hi, lo), c.I("(- %s %s)", base.t[3], lo)}, typ: base.typ}
	case "forall", "exists":
		if x.Op == "exists" && len(x.Args) > 1 && !env.hyp && len(x.Binders) == 1 {
			// proving an existential: it holds if it holds for one of the named candidates
			var alts []string
			for _, h := range x.Args[1:] {
				w, ok := env.tryEvalInt(h)
				if !ok {
					continue // the candidate names something that does not exist at this return site
				}
				sub := *env
				sub.vars = map[string]SV{}
				for k, v := range env.vars {
					sub.vars[k] = v
				}
				sub.vars[x.Binders[0]] = mathInt(w)
				if env.oldEnv != nil {
					o := *env.oldEnv
					o.vars = map[string]SV{}
					for k, v := range env.oldEnv.vars {
						o.vars[k] = v
					}
					o.vars[x.Binders[0]] = mathInt(w)
					sub.oldEnv = &o
				}
				alts = append(alts, sub.evalBool(x.Args[0]))
			}
			return mathBool(c.B("(or %s false)", strings.Join(alts, " ")))
		}
		sub := *env
		sub.vars = map[string]SV{}
		for k, v := range env.vars {
			sub.vars[k] = v
		}
		var bs []string
		c.n++
		suffix := fmt.Sprintf("!%d", c.n)
		sub.bound = map[string]bool{}
		for k := range env.bound {
			sub.bound[k] = true
		}
		for _, b := range x.Binders {
			sub.bound[b] = true
		}
		for _, b := range x.Binders {
			nm := "q_" + b + suffix
			sub.vars[b] = mathInt(nm)
			bs = append(bs, fmt.Sprintf("(%s Int)", nm))
		}
		if env.oldEnv != nil {
			o := *env.oldEnv
			o.vars = map[string]SV{}
			for k, v := range env.oldEnv.vars {
				o.vars[k] = v
			}
			for _, b := range x.Binders {
				o.vars[b] = mathInt("q_" + b + suffix)
			}
			o.bound = sub.bound
			sub.oldEnv = &o
		}
		c.raw++
		if env.hyp && x.Op == "forall" {
			c.rawFacts = append(c.rawFacts, nil)
		}
		body := sub.evalBool(x.Args[0])
		if env.hyp && x.Op == "forall" {
			// a quantified hypothesis carries the typing facts of the values it loads
			facts := c.rawFacts[len(c.rawFacts)-1]
			c.rawFacts = c.rawFacts[:len(c.rawFacts)-1]
			if len(facts) > 0 {
				seen := map[string]bool{}
				var uniq []string
				for _, f := range facts {
					if !seen[f] {
						seen[f] = true
						uniq = append(uniq, f)
					}
				}
				body = fmt.Sprintf("(and %s %s)", body, strings.Join(uniq, " "))
			}
		}
		c.raw--
		t := c.B("(%s (%s) %s)", x.Op, strings.Join(bs, " "), body)
		if c.raw == 0 && x.Op == "forall" {
			if _, ok := c.quants[t]; !ok {
				qi := &quantInfo{body: body, at: len(c.lines)}
				for _, b := range x.Binders {
					qi.src = append(qi.src, b)
					qi.smt = append(qi.smt, "q_"+b+suffix)
				}
				c.quants[t] = qi
				c.qorder = append(c.qorder, t)
			}
		}
		return mathBool(t)
	case "call":
		return env.call(x)
	}
	specFail("cannot evaluate %s", x)
	return SV{}
}

// peek reads memory without raising obligations.
func (env *Env) peek(obj, cell string, t types.Type) Val {
	return env.x.load(env.cur, obj, cell, t)
}

func (env *Env) binary(x *SExpr) SV {
	c := env.c()
	switch x.Name {
	case "&&":
		return mathBool(c.and(env.evalBool(x.Args[0]), env.evalBool(x.Args[1])))
	case "||":
		return mathBool(c.or(env.evalBool(x.Args[0]), env.evalBool(x.Args[1])))
	case "==>":
		return mathBool(c.implies(env.evalBool(x.Args[0]), env.evalBool(x.Args[1])))
	case "<==>":
		return mathBool(c.B("(= %s %s)", env.evalBool(x.Args[0]), env.evalBool(x.Args[1])))
	case "==", "!=":
		a, b := x.Args[0], x.Args[1]
		var eq string
		switch {
		case b.Op == "ident" && b.Name == "nil":
			eq = c.B("(= %s 0)", env.eval(a).t[0])
		case a.Op == "ident" && a.Name == "nil":
			eq = c.B("(= %s 0)", env.eval(b).t[0])
		default:
			va, vb := env.eval(a), env.eval(b)
			if va.isBool || vb.isBool || (va.typ != nil && isBoolType(va.typ)) {
				eq = c.B("(= %s %s)", env.asBool(va, a.String()), env.asBool(vb, b.String()))
			} else if len(va.t) == 1 && len(vb.t) == 1 {
				eq = c.B("(= %s %s)", va.t[0], vb.t[0])
			} else {
				if len(va.t) != len(vb.t) {
					specFail("== on values of different shape: %s vs %s", a, b)
				}
				eq = "true"
				for i := range va.t {
					eq = c.and(eq, c.B("(= %s %s)", va.t[i], vb.t[i]))
				}
			}
		}
		if x.Name == "!=" {
			eq = c.not(eq)
		}
		return mathBool(eq)
	case "<", "<=", ">", ">=":
		return mathBool(c.B("(%s %s %s)", x.Name, env.evalInt(x.Args[0]), env.evalInt(x.Args[1])))
	case "===":
		// pointwise equality of two slices (lengths included)
		a, b := env.eval(x.Args[0]), env.eval(x.Args[1])
		return mathBool(c.and(c.B("(= %s %s)", a.t[2], b.t[2]), env.eqSeq(a, "0", b, "0", a.t[2])))
	case "+", "-", "*":
		return mathInt(c.I("(%s %s %s)", x.Name, env.evalInt(x.Args[0]), env.evalInt(x.Args[1])))
	case "/", "%":
		a, b := env.eval(x.Args[0]), env.evalInt(x.Args[1])
		at := env.asInt(a, x.String())
		if w := env.unsignedWidth(a); w > 0 {
			if t, ok := c.unsignedFast(x.Name, at, b, w); ok {
				return mathInt(t)
			}
		}
		if x.Name == "/" {
			return mathInt(c.I("(div %s %s)", at, b))
		}
		return mathInt(c.I("(mod %s %s)", at, b))
	case "<<", ">>":
		if x.Args[1].Op != "num" {
			specFail("shift count must be a literal in %s", x)
		}
		k := pow2(int(x.Args[1].Num.Int64()))
		if x.Name == "<<" {
			return mathInt(c.I("(* %s %s)", env.evalInt(x.Args[0]), k))
		}
		return mathInt(c.I("(div %s %s)", env.evalInt(x.Args[0]), k))
	case "&":
		if x.Args[1].Op == "num" {
			return mathInt(c.andConst(env.evalInt(x.Args[0]), x.Args[1].Num, 64))
		}
	}
	specFail("unsupported operator %s in %s", x.Name, x)
	return SV{}
}

// unsignedWidth: the bit width if v is known to be an unsigned value with a
// bit-slice representation (an unsigned Go integer or a registered term).
func (env *Env) unsignedWidth(v SV) int {
	if v.isBool || len(v.t) != 1 {
		return 0
	}
	if v.typ != nil {
		if isIntType(v.typ) {
			l := leaves(v.typ)[0]
			if !l.signed {
				return l.bits
			}
		}
		return 0
	}
	if r, ok := env.c().reps[v.t[0]]; ok {
		return r.width()
	}
	return 0
}

func (env *Env) eqSeq(a SV, ai string, b SV, bi string, n string) string {
	c := env.c()
	sa, ok1 := a.typ.Underlying().(*types.Slice)
	sb, ok2 := b.typ.Underlying().(*types.Slice)
	if !ok1 || !ok2 || cells(sa.Elem()) != 1 || cells(sb.Elem()) != 1 {
		specFail("eqseq needs slices of scalars")
	}
	ka, kb := leaves(sa.Elem())[0].kind, leaves(sb.Elem())[0].kind
	// a window of small literal length: element by element, no quantifier
	if lv, isLit := isLit(n); isLit && lv.Sign() >= 0 && lv.Cmp(big.NewInt(8)) <= 0 && env.hyp {
		var eqs []string
		for k := 0; k < int(lv.Int64()); k++ {
			va := env.x.load(env.cur, a.t[0], c.add(c.add(a.t[1], ai), fmt.Sprint(k)), sa.Elem())[0]
			vb := env.x.load(env.cur, b.t[0], c.add(c.add(b.t[1], bi), fmt.Sprint(k)), sb.Elem())[0]
			eqs = append(eqs, fmt.Sprintf("(= %s %s)", va, vb))
		}
		_ = ka
		_ = kb
		return c.B("(and %s true)", strings.Join(eqs, " "))
	}
	// pin the pieces to constants so that they can appear under the binder
	ao, aoff := env.x.pinRaw(a.t[0]), env.x.pinRaw(c.I("(+ %s %s)", a.t[1], ai))
	bo, boff := env.x.pinRaw(b.t[0]), env.x.pinRaw(c.I("(+ %s %s)", b.t[1], bi))
	nn := env.x.pinRaw(n)
	ha, hb := env.cur.heaps[ka], env.cur.heaps[kb]
	c.n++
	q := fmt.Sprintf("qe!%d", c.n)
	body := fmt.Sprintf("(=> (and (<= 0 %[1]s) (< %[1]s %[2]s)) (= (select (select %[3]s %[4]s) (+ %[5]s %[1]s)) (select (select %[6]s %[7]s) (+ %[8]s %[1]s))))",
		q, nn, ha, ao, aoff, hb, bo, boff)
	t := c.B("(forall ((%s Int)) %s)", q, body)
	if c.raw == 0 {
		// element-wise equality: all such formulas share the binder name, so a goal of
		// this shape gets every earlier eqseq hypothesis instantiated at its skolem index
		if _, ok := c.quants[t]; !ok {
			c.quants[t] = &quantInfo{src: []string{"eqseq-index"}, smt: []string{q}, body: body, at: len(c.lines), offs: []string{aoff, boff}}
			c.qorder = append(c.qorder, t)
		}
	}
	return t
}

func (e *Exec) pinRaw(t string) string {
	if e.c.raw > 0 {
		return t
	}
	return t
}

func (env *Env) selector(x *SExpr) SV {
	c := env.c()
	// package-qualified constant, e.g. io.ErrShortBuffer
	if x.Args[0].Op == "ident" {
		if _, bound := env.lookup(x.Args[0].Name); !bound {
			if v, ok := env.x.p.qualified(env, x.Args[0].Name, x.Name); ok {
				return v
			}
		}
	}
	base := env.eval(x.Args[0])
	if base.typ == nil {
		specFail("selector %s on non-Go value", x)
	}
	t := base.typ
	if pt, ok := t.Underlying().(*types.Pointer); ok {
		st, ok := pt.Elem().Underlying().(*types.Struct)
		if !ok {
			specFail("selector %s: pointer to non-struct", x)
		}
		idx, path := fieldPath(st, x.Name)
		if idx < 0 {
			specFail("no field %s in %s", x.Name, pt.Elem())
		}
		off, ft := pathOffset(st, path)
		return SV{t: env.peek(base.t[0], c.add(base.t[1], fmt.Sprint(off)), ft), typ: ft}
	}
	if st, ok := t.Underlying().(*types.Struct); ok {
		idx, path := fieldPath(st, x.Name)
		if idx < 0 {
			specFail("no field %s in %s", x.Name, t)
		}
		off, ft := pathOffset(st, path)
		return SV{t: base.t[off : off+cells(ft)], typ: ft}
	}
	specFail("selector %s on %s", x, describe(base))
	return SV{}
}

// fieldPath finds a (possibly promoted) field.
func fieldPath(st *types.Struct, name string) (int, []int) {
	for i := 0; i < st.NumFields(); i++ {
		if st.Field(i).Name() == name {
			return i, []int{i}
		}
	}
	for i := 0; i < st.NumFields(); i++ {
		f := st.Field(i)
		if f.Embedded() {
			if sub, ok := f.Type().Underlying().(*types.Struct); ok {
				if j, p := fieldPath(sub, name); j >= 0 {
					return i, append([]int{i}, p...)
				}
			}
		}
	}
	return -1, nil
}

func pathOffset(st *types.Struct, path []int) (int, types.Type) {
	off := 0
	var ft types.Type
	cur := st
	for k, i := range path {
		off += fieldOffset(cur, i)
		ft = cur.Field(i).Type()
		if k < len(path)-1 {
			cur = ft.Underlying().(*types.Struct)
		}
	}
	return off, ft
}

func (env *Env) lookup(name string) (SV, bool) {
	if env.bound[name] {
		v, ok := env.vars[name]
		return v, ok
	}
	if env.locals {
		if v, ok := env.x.localByName(env.cur, env.fn, name); ok {
			return v, true
		}
	}
	if v, ok := env.vars[name]; ok {
		return v, true
	}
	if p, ok := env.free[name]; ok {
		et := p.typ.Underlying().(*types.Pointer).Elem()
		return SV{t: env.x.load(env.cur, p.t[0], p.t[1], et), typ: et}, true
	}
	return SV{}, false
}

func (env *Env) ident(name string) SV {
	switch name {
	case "true":
		return mathBool("true")
	case "false":
		return mathBool("false")
	case "nil":
		return SV{t: Val{"0", "0", "0", "0"}, typ: types.Typ[types.UntypedNil]}
	}
	if v, ok := env.lookup(name); ok {
		return v
	}
	// package-level constant, sentinel error or variable
	if env.fn != nil && env.fn.Pkg != nil {
		if v, ok := env.x.p.pkgLevel(env, env.fn.Pkg, name); ok {
			return v
		}
	}
	specFail("unknown identifier %q (in %s)", name, env.fn)
	return SV{}
}

func (env *Env) call(x *SExpr) SV {
	c := env.c()
	arg := func(i int) SV { return env.eval(x.Args[i]) }
	argI := func(i int) string { return env.evalInt(x.Args[i]) }
	need := func(n int) {
		if len(x.Args) != n {
			specFail("%s expects %d arguments", x.Name, n)
		}
	}
	switch x.Name {
	case "ref":
		// ref(v): the cell of a captured variable (for modifies clauses of closures)
		need(1)
		if x.Args[0].Op != "ident" {
			specFail("ref expects a variable name")
		}
		if p, ok := env.free[x.Args[0].Name]; ok {
			return p
		}
		specFail("ref(%s): not a captured variable of this function", x.Args[0].Name)
	case "old":
		need(1)
		if env.oldEnv == nil {
			specFail("old() not available here: %s", x)
		}
		return env.oldEnv.eval(x.Args[0])
	case "len":
		need(1)
		v := arg(0)
		switch u := v.typ.Underlying().(type) {
		case *types.Slice:
			return mathInt(v.t[2])
		case *types.Array:
			return mathInt(fmt.Sprint(u.Len()))
		case *types.Basic:
			return mathInt(v.t[1])
		}
		specFail("len of %s", describe(v))
	case "cap":
		need(1)
		return mathInt(arg(0).t[3])
	case "off":
		need(1)
		return mathInt(arg(0).t[1])
	case "obj":
		need(1)
		return mathInt(arg(0).t[0])
	case "sameobj":
		need(2)
		return mathBool(c.B("(= %s %s)", arg(0).t[0], arg(1).t[0]))
	case "fresh":
		// allocated during this call (or nil)
		need(1)
		v := arg(0)
		a0 := env.old.A
		return mathBool(c.B("(or (= %s 0) (and (<= %s %s) (< %s %s)))", v.t[0], a0, v.t[0], v.t[0], env.cur.A))
	case "isold":
		need(1)
		return mathBool(c.B("(< %s %s)", arg(0).t[0], env.old.A))
	case "within":
		need(2)
		a, b := arg(0), arg(1)
		return mathBool(c.B("(or (and (= %s 0) (= %s 0)) (and (= %s %s) (<= %s %s) (<= (+ %s %s) (+ %s %s))))",
			a.t[0], a.t[2], a.t[0], b.t[0], b.t[1], a.t[1], a.t[1], a.t[2], b.t[1], b.t[2]))
	case "disjoint":
		need(2)
		a, b := arg(0), arg(1)
		return mathBool(c.B("(or (not (= %s %s)) (<= (+ %s %s) %s) (<= (+ %s %s) %s))", a.t[0], b.t[0], a.t[1], a.t[3], b.t[1], b.t[1], b.t[3], a.t[1]))
	case "bits":
		need(3)
		hi, lo := int(x.Args[1].Num.Int64()), int(x.Args[2].Num.Int64())
		a0 := arg(0)
		if w := env.unsignedWidth(a0); w > 0 && c.raw == 0 {
			return mathInt(c.termOf(c.sliceBits(c.repOf(a0.t[0], w), lo, hi+1)))
		}
		v := env.asInt(a0, "bits")
		t := v
		if lo > 0 {
			t = c.I("(div %s %s)", t, pow2(lo))
		}
		return mathInt(c.I("(mod %s %s)", t, pow2(hi-lo+1)))
	case "be16", "be24", "be32", "be64":
		need(2)
		n := map[string]int{"be16": 2, "be24": 3, "be32": 4, "be64": 8}[x.Name]
		s := arg(0)
		i := argI(1)
		var parts []string
		rep := make(sliceRep, n)
		for k := 0; k < n; k++ {
			b := env.peek(s.t[0], c.add(c.add(s.t[1], i), fmt.Sprint(k)), types.Typ[types.Uint8])[0]
			parts = append(parts, c.I("(* %s %s)", b, pow2(8*(n-1-k))))
			rep[n-1-k] = chunk{b, 8}
		}
		if c.raw == 0 {
			return mathInt(c.termOf(rep))
		}
		return mathInt(c.I("(+ %s)", strings.Join(parts, " ")))
	case "eqseq":
		need(5)
		return mathBool(env.eqSeq(arg(0), argI(1), arg(2), argI(3), argI(4)))
	case "errIs":
		need(2)
		e1, e2 := arg(0).t[0], arg(1).t[0]
		return mathBool(c.B("(and (not (= %s 0)) (or (= %s %s) (= (wraps %s) %s)))", e1, e1, e2, e1, e2))
	case "bv":
		need(1)
		return mathInt(c.ite("Int", env.evalBool(x.Args[0]), "1", "0"))
	case "ite":
		need(3)
		cond := env.evalBool(x.Args[0])
		a, b := arg(1), arg(2)
		if a.isBool || b.isBool {
			return mathBool(c.ite("Bool", cond, env.asBool(a, "ite"), env.asBool(b, "ite")))
		}
		if len(a.t) == 1 && len(b.t) == 1 {
			return mathInt(c.ite("Int", cond, a.t[0], b.t[0]))
		}
		res := make(Val, len(a.t))
		for i := range a.t {
			res[i] = c.ite("Int", cond, a.t[i], b.t[i])
		}
		return SV{t: res, typ: a.typ}
	case "min":
		need(2)
		a, b := argI(0), argI(1)
		return mathInt(c.I("(ite (<= %s %s) %s %s)", a, b, a, b))
	case "max":
		need(2)
		a, b := argI(0), argI(1)
		return mathInt(c.I("(ite (>= %s %s) %s %s)", a, b, a, b))
	case "abs":
		need(1)
		a := argI(0)
		return mathInt(c.I("(ite (>= %s 0) %s (- %s))", a, a, a))
	case "int":
		need(1)
		v := arg(0)
		if v.isBool {
			specFail("int(bool)")
		}
		if w := env.unsignedWidth(v); w > 0 && c.raw == 0 {
			if _, lit := isLit(v.t[0]); !lit {
				if _, ok := c.reps[v.t[0]]; !ok {
					c.reps[v.t[0]] = c.repOf(v.t[0], w) // keeps the value eligible for the bit-slice form of / % by powers of two
				}
			}
		}
		return mathInt(v.t[0])
	case "uint8", "uint16", "uint32", "uint64", "int8", "int16", "int32", "int64", "byte":
		need(1)
		var l leaf
		switch x.Name {
		case "uint8", "byte":
			l = leaf{"u8", 8, false}
		case "uint16":
			l = leaf{"u16", 16, false}
		case "uint32":
			l = leaf{"u32", 32, false}
		case "uint64":
			l = leaf{"u64", 64, false}
		case "int8":
			l = leaf{"i8", 8, true}
		case "int16":
			l = leaf{"i16", 16, true}
		case "int32":
			l = leaf{"i32", 32, true}
		case "int64":
			l = leaf{"int", 64, true}
		}
		return mathInt(c.wrap(argI(0), l))
	case "samescalars":
		// every bool/integer leaf of two struct values of the same type is equal
		// (the field list comes from go/types: a field added later is covered)
		need(2)
		a, b := arg(0), arg(1)
		if a.typ == nil || b.typ == nil || !types.Identical(a.typ, b.typ) {
			specFail("samescalars: two values of the same struct type expected")
		}
		eq := "true"
		var walk func(t types.Type, off int) int
		walk = func(t types.Type, off int) int {
			switch u := t.Underlying().(type) {
			case *types.Struct:
				for i := 0; i < u.NumFields(); i++ {
					off = walk(u.Field(i).Type(), off)
				}
				return off
			case *types.Array:
				for i := int64(0); i < u.Len(); i++ {
					off = walk(u.Elem(), off)
				}
				return off
			case *types.Basic:
				if u.Info()&(types.IsInteger|types.IsBoolean) != 0 {
					eq = c.and(eq, c.B("(= %s %s)", a.t[off], b.t[off]))
				}
				return off + cells(t)
			}
			return off + cells(t)
		}
		walk(a.typ, 0)
		return mathBool(eq)
	case "held":
		// held(m): ghost lock state of the mutex value/pointer m
		need(1)
		v := arg(0)
		var obj, cell string
		if _, ok := v.typ.Underlying().(*types.Pointer); ok {
			obj, cell = v.t[0], v.t[1]
		} else {
			specFail("held() needs a pointer to a mutex")
		}
		return mathBool(c.B("(= (select (select %s %s) %s) 1)", env.cur.heaps["i32"], obj, cell))
	case "addr":
		// addr(p.f): pointer to field f of *p
		need(1)
		a := x.Args[0]
		if a.Op != "sel" {
			specFail("addr() needs a field selector")
		}
		base := env.eval(a.Args[0])
		pt, ok := base.typ.Underlying().(*types.Pointer)
		if !ok {
			specFail("addr(): base must be a pointer")
		}
		st := pt.Elem().Underlying().(*types.Struct)
		_, path := fieldPath(st, a.Name)
		off, ft := pathOffset(st, path)
		return SV{t: Val{base.t[0], c.I("(+ %s %d)", base.t[1], off)}, typ: types.NewPointer(ft)}
	}
	if pf, ok := env.x.p.cs.Pures[x.Name]; ok {
		if len(x.Args) != pf.NArgs {
			specFail("%s expects %d arguments", x.Name, pf.NArgs)
		}
		if pf.Body == nil || (pf.Opaque && !env.unfold) {
			// uninterpreted ghost function over the flattened argument tuples
			var flat []string
			for i := range x.Args {
				v := arg(i)
				if v.isBool {
					flat = append(flat, c.ite("Int", v.t[0], "1", "0"))
				} else {
					flat = append(flat, v.t...)
				}
			}
			ret := "Int"
			if pf.Bool {
				ret = "Bool"
			}
			c.declareFun("ghost_"+pf.Name, len(flat), ret)
			t := fmt.Sprintf("(ghost_%s %s)", pf.Name, strings.Join(flat, " "))
			if pf.Bool {
				return mathBool(c.B("%s", t))
			}
			return mathInt(c.I("%s", t))
		}
		if env.depth > 40 {
			specFail("pure function recursion too deep: %s", x.Name)
		}
		sub := *env
		sub.depth = env.depth + 1
		sub.locals = false
		sub.unfold = false
		sub.vars = map[string]SV{}
		sub.bound = nil
		for i, pn := range pf.Params {
			sub.vars[pn] = arg(i)
		}
		if env.oldEnv != nil {
			o := *env.oldEnv
			o.vars = sub.vars
			o.locals = false
			sub.oldEnv = &o
		}
		return sub.eval(pf.Body)
	}
	specFail("unknown spec function %s", x.Name)
	return SV{}
}

// ---- name resolution against the program ----

func (e *Exec) localByName(s *State, fn *ssa.Function, name string) (SV, bool) {
	var best *ssa.Alloc
	if name == "rangeindex" && e.invHeader != nil {
		// the hidden index of the range loop whose invariant is being evaluated
		for _, in := range e.invHeader.Instrs {
			if st, ok := in.(*ssa.Store); ok {
				if a, ok := st.Addr.(*ssa.Alloc); ok && a.Comment == "rangeindex" {
					if v, live := s.vars[a]; live {
						return SV{t: v, typ: a.Type().(*types.Pointer).Elem()}, true
					}
				}
			}
		}
	}
	if name == "rangeindex" && e.invHeader == nil {
		// outside a loop invariant: the hidden index of the function's only live range loop
		var only *ssa.Alloc
		n := 0
		for a := range s.vars {
			if a.Comment == "rangeindex" && a.Parent() == fn {
				only = a
				n++
			}
		}
		if n == 1 {
			return SV{t: s.vars[only], typ: only.Type().(*types.Pointer).Elem()}, true
		}
	}
	for a := range s.vars {
		if a.Comment == name && a.Parent() == fn {
			if best == nil || a.Pos() > best.Pos() {
				best = a
			}
		}
	}
	if best != nil {
		return SV{t: s.vars[best], typ: best.Type().(*types.Pointer).Elem()}, true
	}
	// heap-allocated local (escaping or aggregate)
	for v, r := range s.regs {
		if a, ok := v.(*ssa.Alloc); ok && a.Comment == name && a.Parent() == fn && r != nil {
			if best == nil || a.Pos() > best.Pos() {
				best = a
			}
		}
	}
	if best != nil && readOnlyParamSpill(best) {
		best = nil // the local copy of a never-assigned parameter: use the parameter value itself
	}
	if best != nil {
		r := s.regs[best]
		et := best.Type().(*types.Pointer).Elem()
		return SV{t: e.load(s, r[0], r[1], et), typ: et}, true
	}
	for _, p := range fn.Params {
		if p.Name() == name {
			if r, ok := s.regs[p]; ok {
				return SV{t: r, typ: p.Type()}, true
			}
		}
	}
	// an inlined callee's invariant may speak about the variables of the function it is inlined into
	if e.root != nil && e.root.fn != fn && fn.Parent() == nil {
		if v, ok := e.localByName(s, e.root.fn, name); ok {
			return v, true
		}
		for i := len(s.outer) - 1; i >= 0; i-- {
			if os.Getenv("VERIF_DEBUG") != "" {
				for v := range s.outer[i] {
					if a, ok := v.(*ssa.Alloc); ok {
						fmt.Fprintf(os.Stderr, "outer[%d] alloc %q parent %v\n", i, a.Comment, a.Parent())
					}
					if pp, ok := v.(*ssa.Parameter); ok {
						fmt.Fprintf(os.Stderr, "outer[%d] param %q\n", i, pp.Name())
					}
				}
			}
			var best *ssa.Alloc
			for v, r := range s.outer[i] {
				if a, ok := v.(*ssa.Alloc); ok && a.Comment == name && a.Parent() == e.root.fn && r != nil {
					if best == nil || a.Pos() > best.Pos() {
						best = a
					}
				}
			}
			if best != nil {
				r := s.outer[i][best]
				et := best.Type().(*types.Pointer).Elem()
				return SV{t: e.load(s, r[0], r[1], et), typ: et}, true
			}
			for _, p := range e.root.fn.Params {
				if p.Name() == name {
					if r, ok := s.outer[i][p]; ok {
						return SV{t: r, typ: p.Type()}, true
					}
				}
			}
		}
	}
	for _, fv := range fn.FreeVars {
		if fv.Name() == name {
			if r, ok := s.regs[fv]; ok {
				et := fv.Type().(*types.Pointer).Elem()
				return SV{t: e.load(s, r[0], r[1], et), typ: et}, true
			}
		}
	}
	return SV{}, false
}

func (p *Prog) pkgLevel(env *Env, pkg *ssa.Package, name string) (SV, bool) {
	obj := pkg.Pkg.Scope().Lookup(name)
	if obj == nil {
		return SV{}, false
	}
	switch o := obj.(type) {
	case *types.Const:
		return constSV(o.Val(), o.Type())
	case *types.Var:
		g, ok := pkg.Members[name].(*ssa.Global)
		if !ok {
			return SV{}, false
		}
		if v, ok := p.globalValue(env.x, env.cur, g); ok {
			return SV{t: v, typ: o.Type()}, true
		}
	}
	return SV{}, false
}

func constSV(v constant.Value, t types.Type) (SV, bool) {
	switch v.Kind() {
	case constant.Int:
		bi, _ := new(big.Int).SetString(v.ExactString(), 10)
		return mathInt(lit(bi)), true
	case constant.Bool:
		if constant.BoolVal(v) {
			return mathBool("true"), true
		}
		return mathBool("false"), true
	}
	return SV{}, false
}

func (p *Prog) qualified(env *Env, pkgName, name string) (SV, bool) {
	for _, sp := range p.prog.AllPackages() {
		if sp.Pkg.Name() == pkgName {
			if _, ok := sp.Members[name]; ok {
				return p.pkgLevel(env, sp, name)
			}
		}
	}
	return SV{}, false
}

var _ = token.NoPos

// reveal f(args): the definitional equation of an opaque pure function at these arguments.
func (env *Env) reveal(x *SExpr) string {
	c := env.c()
	pf, ok := env.x.p.cs.Pures[x.Name]
	if !ok || !pf.Opaque {
		specFail("reveal: %s is not an opaque pure function", x.Name)
	}
	app := env.eval(x)
	// bind the arguments once, then expand the body
	sub := *env
	sub.vars = map[string]SV{}
	for k, v := range env.vars {
		sub.vars[k] = v
	}
	args := make([]*SExpr, len(x.Args))
	for i, a := range x.Args {
		nm := fmt.Sprintf("reveal_arg_%d", i)
		sub.vars[nm] = env.eval(a)
		args[i] = &SExpr{Op: "ident", Name: nm}
	}
	sub.unfold = true
	sub.locals = false
	body := sub.eval(&SExpr{Op: "call", Name: x.Name, Args: args})
	if app.isBool {
		return c.B("(= %s %s)", app.t[0], env.asBool(body, "reveal"))
	}
	return c.B("(= %s %s)", app.t[0], env.asInt(body, "reveal"))
}

// readOnlyParamSpill: a is the addressable copy of a parameter that is
// initialised once from the parameter and never written again.
func readOnlyParamSpill(a *ssa.Alloc) bool {
	fn := a.Parent()
	isParam := false
	for _, p := range fn.Params {
		if p.Name() == a.Comment {
			isParam = true
		}
	}
	if !isParam {
		return false
	}
	derived := privateAlloc(a)
	if derived == nil {
		return false
	}
	stores := 0
	for _, b := range fn.Blocks {
		for _, in := range b.Instrs {
			if st, ok := in.(*ssa.Store); ok && derived[st.Addr] {
				if _, fromParam := st.Val.(*ssa.Parameter); !fromParam || st.Addr != ssa.Value(a) {
					return false
				}
				stores++
			}
		}
	}
	return stores == 1
}

func (env *Env) tryEvalInt(x *SExpr) (t string, ok bool) {
	defer func() {
		if r := recover(); r != nil {
			if _, isSpec := r.(engineError); isSpec {
				t, ok = "", false
				return
			}
			panic(r)
		}
	}()
	return env.evalInt(x), true
}
