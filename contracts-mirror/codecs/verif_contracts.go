// SPDX-FileCopyrightText: 2023 The Pion community <https://pion.ly>
// SPDX-License-Identifier: MIT

//go:build verif

// Contracts (machine-checked by /verif/engine) for package codecs. Only
// compiled with the build tag "verif"; nothing here is part of the library.

package codecs

// ===== C16 (and the C08 clauses of the same functions): audio payloaders =====

// fragsOf: every fragment out[j], j < n, is a fresh, non-nil byte slice of
// exactly m bytes; fragBytes: it holds the input window [j*m, (j+1)*m).
//@ pure bool fragsOf(out, n, src, m) = forall j :: 0 <= j && j < n ==> out[j] != nil && fresh(out[j]) && off(out[j]) == 0 && len(out[j]) == m
//@ pure bool fragBytes(out, n, src, m) = forall j, q :: 0 <= j && j < n && 0 <= q && q < m ==> out[j][q] == src[j*m + q]

//@ spec (*G711Payloader).Payload
//@   ensures empty [C16,C08]: (mtu == 0 || payload == nil) ==> len(result0) == 0
//@   ensures count [C16]: mtu > 0 && payload != nil ==> len(result0) >= 1
//@   ensures full [C16,C08]: mtu > 0 && payload != nil ==> fragsOf(result0, len(result0) - 1, payload, int(mtu))
//@   ensures full_bytes [C16,C08]: mtu > 0 && payload != nil ==> fragBytes(result0, len(result0) - 1, payload, int(mtu))
//@   ensures last [C16,C08]: mtu > 0 && payload != nil ==> fresh(result0[len(result0)-1]) && len(result0[len(result0)-1]) == len(payload) - (len(result0)-1)*int(mtu) && eqseq(result0[len(result0)-1], 0, payload, (len(result0)-1)*int(mtu), len(result0[len(result0)-1]))
//@   ensures last_bound [C16,C08]: mtu > 0 && payload != nil ==> len(result0[len(result0)-1]) <= int(mtu) && (len(payload) > 0 ==> len(result0[len(result0)-1]) >= 1)
//@   ensures owned [C08]: fresh(result0)
//@   loop 0: invariant consumed [C16,C08]: sameobj(payload, old(payload)) && off(payload) == off(old(payload)) + len(out)*int(mtu) && len(payload) == len(old(payload)) - len(out)*int(mtu) && len(payload) >= 0 && mtu > 0 && (len(old(payload)) > 0 ==> len(payload) > 0)
//@   loop 0: invariant out_fresh [C16,C08]: fresh(out) && len(out) >= 0
//@   loop 0: invariant frags [C16,C08]: fragsOf(out, len(out), old(payload), int(mtu))
//@   loop 0: invariant frag_bytes [C16,C08]: fragBytes(out, len(out), old(payload), int(mtu))
//@   loop 0: decreases len(payload)
//@ end

//@ spec (*G722Payloader).Payload
//@   ensures empty [C16,C08]: (mtu == 0 || payload == nil) ==> len(result0) == 0
//@   ensures count [C16]: mtu > 0 && payload != nil ==> len(result0) >= 1
//@   ensures full [C16,C08]: mtu > 0 && payload != nil ==> fragsOf(result0, len(result0) - 1, payload, int(mtu))
//@   ensures full_bytes [C16,C08]: mtu > 0 && payload != nil ==> fragBytes(result0, len(result0) - 1, payload, int(mtu))
//@   ensures last [C16,C08]: mtu > 0 && payload != nil ==> fresh(result0[len(result0)-1]) && len(result0[len(result0)-1]) == len(payload) - (len(result0)-1)*int(mtu) && eqseq(result0[len(result0)-1], 0, payload, (len(result0)-1)*int(mtu), len(result0[len(result0)-1]))
//@   ensures last_bound [C16,C08]: mtu > 0 && payload != nil ==> len(result0[len(result0)-1]) <= int(mtu) && (len(payload) > 0 ==> len(result0[len(result0)-1]) >= 1)
//@   ensures owned [C08]: fresh(result0)
//@   loop 0: invariant consumed [C16,C08]: sameobj(payload, old(payload)) && off(payload) == off(old(payload)) + len(out)*int(mtu) && len(payload) == len(old(payload)) - len(out)*int(mtu) && len(payload) >= 0 && mtu > 0 && (len(old(payload)) > 0 ==> len(payload) > 0)
//@   loop 0: invariant out_fresh [C16,C08]: fresh(out) && len(out) >= 0
//@   loop 0: invariant frags [C16,C08]: fragsOf(out, len(out), old(payload), int(mtu))
//@   loop 0: invariant frag_bytes [C16,C08]: fragBytes(out, len(out), old(payload), int(mtu))
//@   loop 0: decreases len(payload)
//@ end

// Opus is passed through: one fragment equal to, and not aliasing, the input.
//@ spec (*OpusPayloader).Payload
//@   ensures nilinput [C16,C08]: payload == nil ==> len(result0) == 0
//@   ensures one [C16,C08]: payload != nil ==> len(result0) == 1 && fresh(result0) && fresh(result0[0]) && result0[0] != nil && len(result0[0]) == len(payload) && eqseq(result0[0], 0, payload, 0, len(payload))
//@ end

//@ spec (*OpusPacket).Unmarshal
//@   modifies p.*
//@   ensures nilpacket [C16]: packet == nil ==> errIs(err, errNilPacket) && len(result0) == 0
//@   ensures empty [C16]: packet != nil && len(packet) == 0 ==> errIs(err, errShortPacket) && len(result0) == 0
//@   ensures passthrough [C16]: len(packet) > 0 ==> err == nil && sameobj(result0, packet) && off(result0) == off(packet) && len(result0) == len(packet)
//@   ensures kept [C16,C09]: len(packet) > 0 ==> sameobj(p.Payload, packet) && off(p.Payload) == off(packet) && len(p.Payload) == len(packet)
//@ end
//@ spec (*audioDepacketizer).IsPartitionHead
//@   ensures always [C16,C09]: result0
//@ end
//@ spec (*audioDepacketizer).IsPartitionTail
//@   ensures always [C16,C09]: result0
//@ end
//@ spec (*OpusPartitionHeadChecker).IsPartitionHead
//@   ensures always [C16]: result0
//@ end

// ===== C11: VP8 payload descriptor (RFC 7741 section 4.2), written from the RFC's diagram =====
//
//       0 1 2 3 4 5 6 7
//      |X|R|N|S|R| PID | (REQUIRED)      octet 0
// X:   |I|L|T|K| RSV   | (OPTIONAL)      octet 1 when X
// I:   |M| PictureID   | (OPTIONAL)      one octet, two when M
// L:   |   TL0PICIDX   | (OPTIONAL)
// T/K: |TID|Y| KEYIDX  | (OPTIONAL)

//@ pure vp8X(p) = bits(p[0], 7, 7)
//@ pure vp8I(p) = ite(vp8X(p) == 1, bits(p[1], 7, 7), 0)
//@ pure vp8L(p) = ite(vp8X(p) == 1, bits(p[1], 6, 6), 0)
//@ pure vp8T(p) = ite(vp8X(p) == 1, bits(p[1], 5, 5), 0)
//@ pure vp8K(p) = ite(vp8X(p) == 1, bits(p[1], 4, 4), 0)
//@ pure vp8PidOff(p) = 1 + vp8X(p)
//@ pure vp8M(p) = ite(vp8I(p) == 1, bits(p[vp8PidOff(p)], 7, 7), 0)
//@ pure vp8TL0Off(p) = vp8PidOff(p) + ite(vp8I(p) == 1, 1 + vp8M(p), 0)
//@ pure vp8TKOff(p) = vp8TL0Off(p) + vp8L(p)
//@ pure vp8DescLen(p) = vp8TKOff(p) + ite(vp8T(p) == 1 || vp8K(p) == 1, 1, 0)

//@ spec (*VP8Packet).Unmarshal
//@   modifies p.*
//@   ensures nilpacket [C11,C09]: payload == nil ==> errIs(err, errNilPacket) && len(result0) == 0
//@   ensures cut_short [C11,C09]: payload != nil ==> ((err != nil) <==> len(payload) < vp8DescLen(payload))
//@   ensures short_err [C11]: payload != nil && err != nil ==> errIs(err, errShortPacket) && len(result0) == 0
//@   ensures first_octet [C11,C09]: err == nil ==> int(p.X) == vp8X(payload) && int(p.N) == bits(payload[0], 5, 5) && int(p.S) == bits(payload[0], 4, 4) && int(p.PID) == bits(payload[0], 2, 0)
//@   ensures ext_flags [C11,C09]: err == nil ==> int(p.I) == vp8I(payload) && int(p.L) == vp8L(payload) && int(p.T) == vp8T(payload) && int(p.K) == vp8K(payload)
//@   ensures picture_id [C11,C09]: err == nil ==> int(p.PictureID) == ite(vp8I(payload) == 1, ite(vp8M(payload) == 1, bits(payload[vp8PidOff(payload)], 6, 0) * 256 + int(payload[vp8PidOff(payload) + 1]), int(payload[vp8PidOff(payload)])), 0)
//@   ensures tl0picidx [C11,C09]: err == nil ==> int(p.TL0PICIDX) == ite(vp8L(payload) == 1, int(payload[vp8TL0Off(payload)]), 0)
//@   ensures tid_y_keyidx [C11,C09]: err == nil ==> int(p.TID) == ite(vp8T(payload) == 1, bits(payload[vp8TKOff(payload)], 7, 6), 0) && int(p.Y) == ite(vp8T(payload) == 1, bits(payload[vp8TKOff(payload)], 5, 5), 0) && int(p.KEYIDX) == ite(vp8K(payload) == 1, bits(payload[vp8TKOff(payload)], 4, 0), 0)
//@   ensures rest [C11,C09]: err == nil ==> sameobj(result0, payload) && off(result0) == off(payload) + vp8DescLen(payload) && len(result0) == len(payload) - vp8DescLen(payload)
//@   ensures kept [C11,C09]: err == nil ==> sameobj(p.Payload, payload) && off(p.Payload) == off(result0) && len(p.Payload) == len(result0)
//@ end
//@ spec (*VP8Packet).IsPartitionHead
//@   ensures s_bit [C11,C09]: result0 <==> (len(payload) >= 1 && bits(payload[0], 4, 4) == 1)
//@ end
//@ spec (*VP8PartitionHeadChecker).IsPartitionHead
//@   ensures s_bit [C11]: result0 <==> (len(packet) >= 1 && bits(packet[0], 4, 4) == 1)
//@ end

// VP8 payloader: descriptor length by picture-id form (7-bit below 128, 15-bit from 128).
//@ pure vp8Hdr(en, pid) = ite(en, ite(pid < 128, 3, 4), 1)
// descriptor octets of fragment j
//@ pure bool vp8DescOK(f, j, en, pid) = int(f[0]) == ite(j == 0, 16, 0) + ite(en, 128, 0) && (en ==> int(f[1]) == 128) && (en && pid < 128 ==> int(f[2]) == pid) && (en && pid >= 128 ==> int(f[2]) == 128 + pid / 256 && int(f[3]) == pid % 256)

//@ spec (*VP8Payloader).Payload
//@   requires p.pictureID < 32768
//@   modifies p.pictureID
//@   ensures none [C11,C08]: (int(mtu) - vp8Hdr(p.EnablePictureID, old(int(p.pictureID))) <= 0 || len(payload) == 0) ==> len(result0) == 0 && p.pictureID == old(p.pictureID)
//@   ensures next_id [C11]: int(mtu) - vp8Hdr(p.EnablePictureID, old(int(p.pictureID))) > 0 && len(payload) > 0 ==> int(p.pictureID) == (old(int(p.pictureID)) + 1) % 32768
//@   ensures count [C11]: int(mtu) - vp8Hdr(p.EnablePictureID, old(int(p.pictureID))) > 0 && len(payload) > 0 ==> len(result0) >= 1 && (len(result0) - 1) * (int(mtu) - vp8Hdr(p.EnablePictureID, old(int(p.pictureID)))) < len(payload) && len(payload) <= len(result0) * (int(mtu) - vp8Hdr(p.EnablePictureID, old(int(p.pictureID))))
//@   ensures sizes [C11,C08]: forall j :: 0 <= j && j < len(result0) ==> result0[j] != nil && fresh(result0[j]) && off(result0[j]) == 0 && len(result0[j]) == vp8Hdr(p.EnablePictureID, old(int(p.pictureID))) + min(int(mtu) - vp8Hdr(p.EnablePictureID, old(int(p.pictureID))), len(payload) - j * (int(mtu) - vp8Hdr(p.EnablePictureID, old(int(p.pictureID)))))
//@   ensures bound [C08]: forall j :: 0 <= j && j < len(result0) ==> 1 <= len(result0[j]) && len(result0[j]) <= int(mtu)
//@   ensures descriptors [C11]: forall j :: 0 <= j && j < len(result0) ==> vp8DescOK(result0[j], j, p.EnablePictureID, old(int(p.pictureID)))
//@   ensures frag_bytes [C11]: forall j, q :: 0 <= j && j < len(result0) && 0 <= q && q < len(result0[j]) - vp8Hdr(p.EnablePictureID, old(int(p.pictureID))) ==> result0[j][vp8Hdr(p.EnablePictureID, old(int(p.pictureID))) + q] == payload[j * (int(mtu) - vp8Hdr(p.EnablePictureID, old(int(p.pictureID)))) + q]
//@   ensures owned [C08]: fresh(result0)
//@   loop 0: invariant consts [C11,C08]: usingHeaderSize == vp8Hdr(p.EnablePictureID, int(p.pictureID)) && maxFragmentSize == int(mtu) - usingHeaderSize && maxFragmentSize >= 1 && sameobj(payloadData, payload) && off(payloadData) == off(payload) && len(payloadData) == len(payload) && p.pictureID == old(p.pictureID)
//@   loop 0: invariant progress [C11,C08]: payloadDataIndex >= 0 && payloadDataRemaining >= 0 && payloadDataIndex + payloadDataRemaining == len(payload) && payloadDataIndex == min(len(payloads) * maxFragmentSize, len(payload)) && (len(payloads) > 0 ==> (len(payloads) - 1) * maxFragmentSize < len(payload)) && (first <==> len(payloads) == 0) && len(payloads) >= 0 && fresh(payloads) && (len(payloads) == 0 ==> payloadDataRemaining > 0)
//@   loop 0: invariant sizes [C11,C08]: forall j :: 0 <= j && j < len(payloads) ==> payloads[j] != nil && fresh(payloads[j]) && off(payloads[j]) == 0 && len(payloads[j]) == usingHeaderSize + min(maxFragmentSize, len(payload) - j * maxFragmentSize)
//@   loop 0: invariant descriptors [C11]: forall j :: 0 <= j && j < len(payloads) ==> vp8DescOK(payloads[j], j, p.EnablePictureID, int(p.pictureID))
//@   loop 0: invariant frag_bytes [C11]: forall j, q :: 0 <= j && j < len(payloads) && 0 <= q && q < len(payloads[j]) - usingHeaderSize ==> payloads[j][usingHeaderSize + q] == payload[j * maxFragmentSize + q]
//@   loop 0: decreases payloadDataRemaining
//@ end
