package main

import (
	"fmt"
	"math/big"
	"os"
	"path/filepath"
	"regexp"
	"sort"
	"strings"
)

// ---- spec expression AST ----

type SExpr struct {
	Op      string // num ident bin un call sel index slice forall exists paren
	Name    string // ident / selector field / operator / callee
	Num     *big.Int
	Args    []*SExpr
	Binders []string // quantifier variables (all int)
	src     string
}

func (x *SExpr) String() string {
	if x == nil {
		return "<nil>"
	}
	switch x.Op {
	case "num":
		return x.Num.String()
	case "ident":
		return x.Name
	case "bin":
		return "(" + x.Args[0].String() + " " + x.Name + " " + x.Args[1].String() + ")"
	case "un":
		return x.Name + x.Args[0].String()
	case "call":
		var as []string
		for _, a := range x.Args {
			as = append(as, a.String())
		}
		return x.Name + "(" + strings.Join(as, ", ") + ")"
	case "sel":
		return x.Args[0].String() + "." + x.Name
	case "index":
		return x.Args[0].String() + "[" + x.Args[1].String() + "]"
	case "slice":
		return x.Args[0].String() + "[" + x.Args[1].String() + ":" + x.Args[2].String() + "]"
	case "forall", "exists":
		return "(" + x.Op + " " + strings.Join(x.Binders, ",") + " :: " + x.Args[0].String() + ")"
	}
	return "?" + x.Op
}

type tok struct {
	k string // num ident op eof
	s string
}

func lexSpec(s string) ([]tok, error) {
	var out []tok
	i := 0
	ops := []string{"<==>", "==>", "===", "::", "&&", "||", "==", "!=", "<=", ">=", "<<", ">>", "&^",
		"+", "-", "*", "/", "%", "<", ">", "!", "(", ")", "[", "]", ".", ",", ":", "|", "&", "^", "?"}
	for i < len(s) {
		ch := s[i]
		switch {
		case ch == ' ' || ch == '\t' || ch == '\n':
			i++
		case ch >= '0' && ch <= '9':
			j := i
			for j < len(s) && (s[j] >= '0' && s[j] <= '9' || s[j] >= 'a' && s[j] <= 'f' || s[j] >= 'A' && s[j] <= 'F' || s[j] == 'x' || s[j] == 'X' || s[j] == '_') {
				j++
			}
			out = append(out, tok{"num", s[i:j]})
			i = j
		case ch == '_' || ch >= 'a' && ch <= 'z' || ch >= 'A' && ch <= 'Z':
			j := i
			for j < len(s) && (s[j] == '_' || s[j] >= 'a' && s[j] <= 'z' || s[j] >= 'A' && s[j] <= 'Z' || s[j] >= '0' && s[j] <= '9') {
				j++
			}
			out = append(out, tok{"ident", s[i:j]})
			i = j
		default:
			found := false
			for _, op := range ops {
				if strings.HasPrefix(s[i:], op) {
					out = append(out, tok{"op", op})
					i += len(op)
					found = true
					break
				}
			}
			if !found {
				return nil, fmt.Errorf("spec lexer: unexpected %q in %q", string(ch), s)
			}
		}
	}
	out = append(out, tok{"eof", ""})
	return out, nil
}

type sparser struct {
	t   []tok
	i   int
	src string
}

func (p *sparser) peek() tok { return p.t[p.i] }
func (p *sparser) next() tok { t := p.t[p.i]; p.i++; return t }
func (p *sparser) isOp(s string) bool {
	return p.t[p.i].k == "op" && p.t[p.i].s == s
}
func (p *sparser) expect(s string) {
	if !p.isOp(s) {
		panic(fmt.Sprintf("spec parse: expected %q at token %d (%q) in %q", s, p.i, p.t[p.i].s, p.src))
	}
	p.i++
}

func parseSpecExpr(s string) (x *SExpr, err error) {
	toks, err := lexSpec(s)
	if err != nil {
		return nil, err
	}
	p := &sparser{t: toks, src: s}
	defer func() {
		if r := recover(); r != nil {
			err = fmt.Errorf("%v", r)
		}
	}()
	x = p.impl()
	if p.peek().k != "eof" {
		return nil, fmt.Errorf("spec parse: trailing %q in %q", p.peek().s, s)
	}
	x.src = s
	return x, nil
}

func bin(op string, a, b *SExpr) *SExpr { return &SExpr{Op: "bin", Name: op, Args: []*SExpr{a, b}} }

func (p *sparser) impl() *SExpr {
	l := p.or()
	if p.isOp("==>") || p.isOp("<==>") {
		op := p.next().s
		r := p.impl()
		return bin(op, l, r)
	}
	return l
}
func (p *sparser) or() *SExpr {
	l := p.and()
	for p.isOp("||") {
		p.next()
		l = bin("||", l, p.and())
	}
	return l
}
func (p *sparser) and() *SExpr {
	l := p.cmp()
	for p.isOp("&&") {
		p.next()
		l = bin("&&", l, p.cmp())
	}
	return l
}
func isCmp(s string) bool {
	switch s {
	case "==", "!=", "<", "<=", ">", ">=", "===":
		return true
	}
	return false
}
func (p *sparser) cmp() *SExpr {
	l := p.add()
	var res *SExpr
	for p.peek().k == "op" && isCmp(p.peek().s) {
		op := p.next().s
		r := p.add()
		c := bin(op, l, r)
		if res == nil {
			res = c
		} else {
			res = bin("&&", res, c) // chained comparison a <= b < c
		}
		l = r
	}
	if res != nil {
		return res
	}
	return l
}
func (p *sparser) add() *SExpr {
	l := p.mul()
	for p.isOp("+") || p.isOp("-") || p.isOp("|") || p.isOp("^") {
		op := p.next().s
		l = bin(op, l, p.mul())
	}
	return l
}
func (p *sparser) mul() *SExpr {
	l := p.unary()
	for p.isOp("*") || p.isOp("/") || p.isOp("%") || p.isOp("<<") || p.isOp(">>") || p.isOp("&") || p.isOp("&^") {
		op := p.next().s
		l = bin(op, l, p.unary())
	}
	return l
}
func (p *sparser) unary() *SExpr {
	if p.isOp("!") || p.isOp("-") || p.isOp("*") {
		op := p.next().s
		return &SExpr{Op: "un", Name: op, Args: []*SExpr{p.unary()}}
	}
	return p.postfix()
}
func (p *sparser) postfix() *SExpr {
	x := p.primary()
	for {
		switch {
		case p.isOp("."):
			p.next()
			t := p.next()
			if t.k != "ident" {
				panic("spec parse: selector expects identifier in " + p.src)
			}
			x = &SExpr{Op: "sel", Name: t.s, Args: []*SExpr{x}}
		case p.isOp("["):
			p.next()
			var lo, hi *SExpr
			if !p.isOp(":") {
				lo = p.impl()
			}
			if p.isOp(":") {
				p.next()
				if !p.isOp("]") {
					hi = p.impl()
				}
				p.expect("]")
				x = &SExpr{Op: "slice", Args: []*SExpr{x, lo, hi}}
			} else {
				p.expect("]")
				x = &SExpr{Op: "index", Args: []*SExpr{x, lo}}
			}
		case p.isOp("(") && x.Op == "ident":
			p.next()
			var args []*SExpr
			for !p.isOp(")") {
				args = append(args, p.impl())
				if p.isOp(",") {
					p.next()
				}
			}
			p.expect(")")
			x = &SExpr{Op: "call", Name: x.Name, Args: args}
		default:
			return x
		}
	}
}
func (p *sparser) primary() *SExpr {
	t := p.next()
	switch t.k {
	case "num":
		s := strings.ReplaceAll(t.s, "_", "")
		v, ok := new(big.Int).SetString(s, 0)
		if !ok {
			panic("spec parse: bad number " + t.s)
		}
		return &SExpr{Op: "num", Num: v}
	case "ident":
		if t.s == "forall" || t.s == "exists" {
			var bs []string
			for {
				n := p.next()
				if n.k != "ident" {
					panic("spec parse: binder name expected in " + p.src)
				}
				bs = append(bs, n.s)
				if p.peek().k == "ident" && p.peek().s != "in" { // optional type (always int)
					p.next()
				}
				if p.isOp(",") {
					p.next()
					continue
				}
				break
			}
			// exists w in (t1, t2, ..) :: P(w) - candidate witnesses for proving the clause
			var hints []*SExpr
			if t.s == "exists" && p.peek().k == "ident" && p.peek().s == "in" {
				p.next()
				p.expect("(")
				for {
					hints = append(hints, p.impl())
					if p.isOp(",") {
						p.next()
						continue
					}
					break
				}
				p.expect(")")
			}
			p.expect("::")
			body := p.impl()
			return &SExpr{Op: t.s, Binders: bs, Args: append([]*SExpr{body}, hints...)}
		}
		return &SExpr{Op: "ident", Name: t.s}
	case "op":
		if t.s == "(" {
			x := p.impl()
			p.expect(")")
			return x
		}
	}
	panic(fmt.Sprintf("spec parse: unexpected %q in %q", t.s, p.src))
}

// ---- contract files ----

type Clause struct {
	Label string
	Props []string
	Expr  *SExpr
	Src   string
	Line  int
	File  string
}

type LoopSpec struct {
	Invs      []*Clause
	Decreases *SExpr
	Unroll    int
	Complete  bool
}

type ModLoc struct {
	Expr *SExpr // the place expression
	Kind string // "all" (p.*: every cell of *p), "elems" (s[*]), "backing" (s[*cap]), "cell" (p.f)
	Src  string
}

type PureFn struct {
	Name   string
	Params []string
	Body   *SExpr // nil => uninterpreted ghost function
	NArgs  int
	Bool   bool
	Opaque bool // applications stay uninterpreted unless a spec says `reveal f(args)`
}

type FuncSpec struct {
	Ref      string // function reference as written, e.g. (*Header).Unmarshal
	Pkg      string // package path of the file it came from
	Requires []*Clause
	Ensures  []*Clause
	Modifies []*ModLoc
	HasMod   bool
	Loops    map[int]*LoopSpec
	Inline   bool
	Trusted  bool
	Pure     bool // no heap effects at all (trusted/external)
	NoAlloc  bool
	File     string
	Line     int
	Guarded  []string
	Reveals  []*SExpr
	SplitPaths  bool     // states are not merged at the joins of this function's if-statements (path-wise execution, bounded by the lane budget)
	UnrollLoops map[string]bool // "callee:ord": with inline-calls, only these loops of the inlined callees are unrolled; the others are cut by the callee's own invariants
	Cases       []*Clause // case analysis over the inputs: the function is verified once per case (added to the preconditions); their disjunction is an obligation
	InstReads   bool      // quantified hypotheses about a slice's object are instantiated at every index the code reads from it
	SplitReturns bool     // (inline spec) the function's return paths are not merged at its call sites
	ThoroughOnly bool     // verified in the thorough tier only (proof too slow for the per-change check)
	PrunePaths  bool      // branches whose path condition a solver refutes (within 2 s) are not executed
	InlineCalls []string // callees executed from their bodies (with this function's unroll bound) although they have contracts
	UnrollComplete bool
	OverflowChecked bool // int/int64 + - *: absence of overflow is an obligation, then the exact result is used
	Unroll   int // default unroll for all loops of the function (bounded mode)
}

type Guard struct {
	Type  string // struct type name
	Field string
	Mutex string
	Props []string
}

type PropDir struct {
	Prop  string
	Funcs []string
	Pkg   string
}

type Contracts struct {
	Specs   map[string]*FuncSpec // key: pkgpath + "::" + ref
	Pures   map[string]*PureFn
	Props   []*PropDir
	Guards  []*Guard
	Files   []string
	Globals map[string]string
	ConstBytes map[string][]byte // pkgpath.Name -> contents of a constant package-level byte slice
}

var clauseKw = regexp.MustCompile(`^(split-paths|split-returns|thorough-only|prune-paths|instantiate-reads|unroll-loops|case|requires|ensures|modifies|loop|end|inline-calls|int-overflow-checked|inline|trusted|pure-effects|noalloc|unroll|reveal)\b`)
var labelRe = regexp.MustCompile(`^([A-Za-z_][A-Za-z0-9_]*)\s*(\[[A-Z0-9, ]*\])?\s*:\s*(.*)$`)

func parseTags(s string) []string {
	s = strings.Trim(s, "[] ")
	if s == "" {
		return nil
	}
	var out []string
	for _, t := range strings.Split(s, ",") {
		out = append(out, strings.TrimSpace(t))
	}
	return out
}

func parseClause(rest, file string, line int) *Clause {
	cl := &Clause{File: file, Line: line}
	if m := labelRe.FindStringSubmatch(rest); m != nil && !strings.HasPrefix(m[3], ":") {
		cl.Label = m[1]
		cl.Props = parseTags(m[2])
		rest = m[3]
	}
	x, err := parseSpecExpr(rest)
	if err != nil {
		panic(fmt.Sprintf("%s:%d: %v", file, line, err))
	}
	cl.Expr = x
	cl.Src = rest
	return cl
}

// loadContracts reads every verif_*.go file of the given package directories.
func loadContracts(dirs map[string]string) *Contracts {
	cs := &Contracts{Specs: map[string]*FuncSpec{}, Pures: map[string]*PureFn{}, Globals: map[string]string{}, ConstBytes: map[string][]byte{}}
	var pkgs []string
	for p := range dirs {
		pkgs = append(pkgs, p)
	}
	sort.Strings(pkgs)
	for _, pkg := range pkgs {
		files, _ := filepath.Glob(filepath.Join(dirs[pkg], "verif_*.go"))
		sort.Strings(files)
		for _, f := range files {
			if strings.HasSuffix(f, "_test.go") {
				continue
			}
			data, err := os.ReadFile(f)
			if err != nil {
				continue
			}
			cs.Files = append(cs.Files, f)
			cs.parseFile(pkg, f, string(data))
		}
	}
	return cs
}

func (cs *Contracts) parseFile(pkg, file, data string) {
	// collect //@ lines, join continuation lines
	type ln struct {
		s string
		n int
	}
	var lines []ln
	for i, raw := range strings.Split(data, "\n") {
		t := strings.TrimSpace(raw)
		if strings.HasPrefix(t, "// @") { // gofmt rewrites //@ to // @ inside doc comments
			t = "//@" + t[4:]
		}
		if !strings.HasPrefix(t, "//@") {
			continue
		}
		t = strings.TrimSpace(strings.TrimPrefix(t, "//@"))
		if t == "" || strings.HasPrefix(t, "#") {
			continue
		}
		if j := strings.Index(t, " //#"); j >= 0 { // trailing comment
			t = strings.TrimSpace(t[:j])
		}
		lines = append(lines, ln{t, i + 1})
	}
	topKw := regexp.MustCompile(`^(spec|trusted-spec|pure|ghost|property|guarded|global)\b`)
	var joined []ln
	for _, l := range lines {
		if topKw.MatchString(l.s) || clauseKw.MatchString(l.s) || len(joined) == 0 {
			joined = append(joined, l)
		} else {
			joined[len(joined)-1].s += " " + l.s
		}
	}
	var cur *FuncSpec
	for _, l := range joined {
		s := l.s
		switch {
		case strings.HasPrefix(s, "spec ") || strings.HasPrefix(s, "trusted-spec "):
			ref := strings.TrimSpace(s[strings.Index(s, " ")+1:])
			cur = &FuncSpec{Ref: ref, Pkg: pkg, Loops: map[int]*LoopSpec{}, File: file, Line: l.n, Trusted: strings.HasPrefix(s, "trusted-spec")}
			key := pkg + "::" + ref
			if cur.Trusted {
				key = "::" + ref
			}
			if _, dup := cs.Specs[key]; dup {
				panic(fmt.Sprintf("%s:%d: duplicate spec for %s", file, l.n, ref))
			}
			cs.Specs[key] = cur
		case s == "end":
			cur = nil
		case strings.HasPrefix(s, "pure "):
			// pure name(a, b) = expr   |   pure bool name(a) = expr
			rest := strings.TrimSpace(s[5:])
			isBool := false
			opaque := false
			if strings.HasPrefix(rest, "opaque ") {
				opaque = true
				rest = strings.TrimSpace(rest[7:])
			}
			if strings.HasPrefix(rest, "bool ") {
				isBool = true
				rest = strings.TrimSpace(rest[5:])
			}
			eq := strings.Index(rest, "=")
			head, body := strings.TrimSpace(rest[:eq]), strings.TrimSpace(rest[eq+1:])
			name, params := parseHead(head)
			x, err := parseSpecExpr(body)
			if err != nil {
				panic(fmt.Sprintf("%s:%d: %v", file, l.n, err))
			}
			cs.Pures[name] = &PureFn{Name: name, Params: params, Body: x, NArgs: len(params), Bool: isBool, Opaque: opaque}
		case strings.HasPrefix(s, "ghost "):
			rest := strings.TrimSpace(s[6:])
			isBool := false
			if strings.HasPrefix(rest, "bool ") {
				isBool = true
				rest = strings.TrimSpace(rest[5:])
			}
			name, params := parseHead(rest)
			cs.Pures[name] = &PureFn{Name: name, Params: params, NArgs: len(params), Bool: isBool}
		case strings.HasPrefix(s, "global "):
			// global NAME = bytes(0, 0, 1): a package-level []byte that is never reassigned or written
			rest := strings.TrimSpace(s[7:])
			eq := strings.Index(rest, "=")
			name := strings.TrimSpace(rest[:eq])
			val := strings.TrimSpace(rest[eq+1:])
			val = strings.TrimSuffix(strings.TrimPrefix(val, "bytes("), ")")
			var bs []byte
			for _, f := range strings.Split(val, ",") {
				var b int
				fmt.Sscan(strings.TrimSpace(f), &b)
				bs = append(bs, byte(b))
			}
			cs.ConstBytes[pkg+"."+name] = bs
		case strings.HasPrefix(s, "property "):
			// property C02 functions: a, b, c
			rest := strings.TrimSpace(s[9:])
			i := strings.Index(rest, ":")
			hd := strings.Fields(rest[:i])
			pd := &PropDir{Prop: hd[0], Pkg: pkg}
			for _, f := range strings.Split(rest[i+1:], ",") {
				if f = strings.TrimSpace(f); f != "" {
					pd.Funcs = append(pd.Funcs, f)
				}
			}
			cs.Props = append(cs.Props, pd)
		case strings.HasPrefix(s, "guarded "):
			// guarded sequencer.sequenceNumber by mutex [C07]
			rest := strings.TrimSpace(s[8:])
			var tags []string
			if i := strings.Index(rest, "["); i >= 0 {
				tags = parseTags(rest[i:])
				rest = strings.TrimSpace(rest[:i])
			}
			f := strings.Fields(rest)
			tf := strings.SplitN(f[0], ".", 2)
			cs.Guards = append(cs.Guards, &Guard{Type: pkg + "." + tf[0], Field: tf[1], Mutex: f[2], Props: tags})
		case cur == nil:
			panic(fmt.Sprintf("%s:%d: clause outside spec: %s", file, l.n, s))
		case strings.HasPrefix(s, "requires "):
			cur.Requires = append(cur.Requires, parseClause(strings.TrimSpace(s[9:]), file, l.n))
		case strings.HasPrefix(s, "case "):
			cl := parseClause(strings.TrimSpace(s[5:]), file, l.n)
			if cl.Label == "" {
				cl.Label = fmt.Sprintf("case%d", len(cur.Cases))
			}
			cur.Cases = append(cur.Cases, cl)
		case strings.HasPrefix(s, "ensures "):
			cl := parseClause(strings.TrimSpace(s[8:]), file, l.n)
			if cl.Label == "" {
				cl.Label = fmt.Sprintf("post%d", len(cur.Ensures))
			}
			cur.Ensures = append(cur.Ensures, cl)
		case strings.HasPrefix(s, "modifies"):
			cur.HasMod = true
			for _, part := range splitTop(strings.TrimSpace(s[8:])) {
				if part == "" || part == "nothing" {
					continue
				}
				cur.Modifies = append(cur.Modifies, parseModLoc(part, file, l.n))
			}
		case strings.HasPrefix(s, "loop "):
			rest := strings.TrimSpace(s[5:])
			sp := strings.IndexAny(rest, " :")
			var k int
			fmt.Sscan(rest[:sp], &k)
			rest = strings.TrimSpace(strings.TrimPrefix(strings.TrimSpace(rest[sp:]), ":"))
			ls := cur.Loops[k]
			if ls == nil {
				ls = &LoopSpec{}
				cur.Loops[k] = ls
			}
			switch {
			case strings.HasPrefix(rest, "invariant "):
				cl := parseClause(strings.TrimSpace(rest[10:]), file, l.n)
				if cl.Label == "" {
					cl.Label = fmt.Sprintf("inv%d", len(ls.Invs))
				}
				ls.Invs = append(ls.Invs, cl)
			case strings.HasPrefix(rest, "decreases "):
				x, err := parseSpecExpr(strings.TrimSpace(rest[10:]))
				if err != nil {
					panic(fmt.Sprintf("%s:%d: %v", file, l.n, err))
				}
				ls.Decreases = x
			case strings.HasPrefix(rest, "unroll "):
				f := strings.Fields(rest)
				fmt.Sscan(f[1], &ls.Unroll)
				ls.Complete = len(f) > 2 && f[2] == "complete"
			default:
				panic(fmt.Sprintf("%s:%d: bad loop clause: %s", file, l.n, rest))
			}
		case strings.HasPrefix(s, "reveal "):
			x, err := parseSpecExpr(strings.TrimSpace(s[7:]))
			if err != nil || x.Op != "call" {
				panic(fmt.Sprintf("%s:%d: reveal needs a function application", file, l.n))
			}
			cur.Reveals = append(cur.Reveals, x)
		case s == "int-overflow-checked":
			cur.OverflowChecked = true
		case s == "inline":
			cur.Inline = true
		case s == "split-paths":
			cur.SplitPaths = true
		case s == "prune-paths":
			cur.PrunePaths = true
		case s == "thorough-only":
			cur.ThoroughOnly = true
		case s == "split-returns":
			cur.SplitReturns = true
		case s == "instantiate-reads":
			cur.InstReads = true
		case s == "trusted":
			cur.Trusted = true
		case s == "pure-effects":
			cur.Pure = true
		case s == "noalloc":
			cur.NoAlloc = true
		case strings.HasPrefix(s, "unroll "):
			f := strings.Fields(s)
			fmt.Sscan(f[1], &cur.Unroll)
			cur.UnrollComplete = len(f) > 2 && f[2] == "complete"
		case strings.HasPrefix(s, "unroll-loops "):
			if cur.UnrollLoops == nil {
				cur.UnrollLoops = map[string]bool{}
			}
			for _, f := range strings.Split(s[len("unroll-loops "):], ",") {
				if f = strings.TrimSpace(f); f != "" {
					cur.UnrollLoops[f] = true
				}
			}
		case strings.HasPrefix(s, "inline-calls "):
			for _, f := range strings.Split(s[len("inline-calls "):], ",") {
				if f = strings.TrimSpace(f); f != "" {
					cur.InlineCalls = append(cur.InlineCalls, f)
				}
			}
		default:
			panic(fmt.Sprintf("%s:%d: unknown clause: %s", file, l.n, s))
		}
	}
}

func parseHead(head string) (string, []string) {
	i := strings.Index(head, "(")
	name := strings.TrimSpace(head[:i])
	inner := strings.TrimSuffix(strings.TrimSpace(head[i+1:]), ")")
	var ps []string
	for _, p := range strings.Split(inner, ",") {
		p = strings.TrimSpace(p)
		if p == "" {
			continue
		}
		ps = append(ps, strings.Fields(p)[0])
	}
	return name, ps
}

func splitTop(s string) []string {
	var out []string
	depth := 0
	cur := ""
	for _, r := range s {
		switch r {
		case '(', '[':
			depth++
		case ')', ']':
			depth--
		}
		if r == ',' && depth == 0 {
			out = append(out, strings.TrimSpace(cur))
			cur = ""
			continue
		}
		cur += string(r)
	}
	if strings.TrimSpace(cur) != "" {
		out = append(out, strings.TrimSpace(cur))
	}
	return out
}

func parseModLoc(s, file string, line int) *ModLoc {
	m := &ModLoc{Src: s}
	switch {
	case strings.HasSuffix(s, ".*"):
		m.Kind = "all"
		s = strings.TrimSuffix(s, ".*")
	case strings.HasSuffix(s, "[*cap]"):
		m.Kind = "backing"
		s = strings.TrimSuffix(s, "[*cap]")
	case strings.HasSuffix(s, "[*]"):
		m.Kind = "elems"
		s = strings.TrimSuffix(s, "[*]")
	default:
		m.Kind = "cell"
	}
	x, err := parseSpecExpr(s)
	if err != nil {
		panic(fmt.Sprintf("%s:%d: %v", file, line, err))
	}
	m.Expr = x
	return m
}

// splitConj splits a clause into independently provable parts:
// A && B, A ==> (B && C), forall x :: A ==> (B && C); non-opaque pure
// predicates are unfolded when their body is a conjunction.
var splitPures map[string]*PureFn

func splitConj(x *SExpr) []*SExpr {
	switch {
	case x.Op == "bin" && x.Name == "&&":
		return append(splitConj(x.Args[0]), splitConj(x.Args[1])...)
	case x.Op == "bin" && x.Name == "==>":
		var out []*SExpr
		for _, r := range splitConj(x.Args[1]) {
			out = append(out, &SExpr{Op: "bin", Name: "==>", Args: []*SExpr{x.Args[0], r}})
		}
		return out
	case x.Op == "forall":
		var out []*SExpr
		for _, r := range splitConj(x.Args[0]) {
			out = append(out, &SExpr{Op: "forall", Binders: x.Binders, Args: []*SExpr{r}})
		}
		return out
	case x.Op == "call":
		if pf, ok := splitPures[x.Name]; ok && pf.Body != nil && !pf.Opaque && pf.Bool && len(x.Args) == len(pf.Params) {
			m := map[string]*SExpr{}
			for i, p := range pf.Params {
				m[p] = x.Args[i]
			}
			body := substSpec(pf.Body, m, nil)
			parts := splitConj(body)
			if len(parts) > 1 {
				return parts
			}
		}
	}
	return []*SExpr{x}
}

func substSpec(x *SExpr, m map[string]*SExpr, bound map[string]bool) *SExpr {
	if x == nil {
		return nil
	}
	switch x.Op {
	case "ident":
		if r, ok := m[x.Name]; ok && !bound[x.Name] {
			return r
		}
		return x
	case "num":
		return x
	case "forall", "exists":
		nb := map[string]bool{}
		for k := range bound {
			nb[k] = true
		}
		for _, b := range x.Binders {
			nb[b] = true
		}
		out := &SExpr{Op: x.Op, Binders: x.Binders, Args: []*SExpr{substSpec(x.Args[0], m, nb)}}
		for _, h := range x.Args[1:] {
			out.Args = append(out.Args, substSpec(h, m, bound))
		}
		return out
	}
	out := &SExpr{Op: x.Op, Name: x.Name, Num: x.Num, Binders: x.Binders}
	for _, a := range x.Args {
		out.Args = append(out.Args, substSpec(a, m, bound))
	}
	return out
}
