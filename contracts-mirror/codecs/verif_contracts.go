// SPDX-FileCopyrightText: 2023 The Pion community <https://pion.ly>
// SPDX-License-Identifier: MIT

//go:build verif

// Contracts (machine-checked by /verif/engine) for package codecs. Only
// compiled with the build tag "verif"; nothing here is part of the library.

package codecs

// ===== C16 (and the C08 clauses of the same functions): audio payloaders =====

// fragsOf: every fragment out[j], j < n, is a fresh, non-nil byte slice of
// exactly m bytes; fragBytes: it holds the input window [j*m, (j+1)*m).
//@ pure bool fragsOf(out, n, src, m) = forall j :: 0 <= j && j < n ==> out[j] != nil && fresh(out[j]) && off(out[j]) == 0 && len(out[j]) == m
//@ pure bool fragBytes(out, n, src, m) = forall j, q :: 0 <= j && j < n && 0 <= q && q < m ==> out[j][q] == src[j*m + q]

//@ spec (*G711Payloader).Payload
//@   ensures empty [C16,C08]: (mtu == 0 || payload == nil) ==> len(result0) == 0
//@   ensures count [C16]: mtu > 0 && payload != nil ==> len(result0) >= 1
//@   ensures full [C16,C08]: mtu > 0 && payload != nil ==> fragsOf(result0, len(result0) - 1, payload, int(mtu))
//@   ensures full_bytes [C16,C08]: mtu > 0 && payload != nil ==> fragBytes(result0, len(result0) - 1, payload, int(mtu))
//@   ensures last [C16,C08]: mtu > 0 && payload != nil ==> fresh(result0[len(result0)-1]) && len(result0[len(result0)-1]) == len(payload) - (len(result0)-1)*int(mtu) && eqseq(result0[len(result0)-1], 0, payload, (len(result0)-1)*int(mtu), len(result0[len(result0)-1]))
//@   ensures last_bound [C16,C08]: mtu > 0 && payload != nil ==> len(result0[len(result0)-1]) <= int(mtu) && (len(payload) > 0 ==> len(result0[len(result0)-1]) >= 1)
//@   ensures owned [C08]: fresh(result0)
//@   loop 0: invariant consumed [C16,C08]: sameobj(payload, old(payload)) && off(payload) == off(old(payload)) + len(out)*int(mtu) && len(payload) == len(old(payload)) - len(out)*int(mtu) && len(payload) >= 0 && mtu > 0 && (len(old(payload)) > 0 ==> len(payload) > 0)
//@   loop 0: invariant out_fresh [C16,C08]: fresh(out) && len(out) >= 0
//@   loop 0: invariant frags [C16,C08]: fragsOf(out, len(out), old(payload), int(mtu))
//@   loop 0: invariant frag_bytes [C16,C08]: fragBytes(out, len(out), old(payload), int(mtu))
//@   loop 0: decreases len(payload)
//@ end

//@ spec (*G722Payloader).Payload
//@   ensures empty [C16,C08]: (mtu == 0 || payload == nil) ==> len(result0) == 0
//@   ensures count [C16]: mtu > 0 && payload != nil ==> len(result0) >= 1
//@   ensures full [C16,C08]: mtu > 0 && payload != nil ==> fragsOf(result0, len(result0) - 1, payload, int(mtu))
//@   ensures full_bytes [C16,C08]: mtu > 0 && payload != nil ==> fragBytes(result0, len(result0) - 1, payload, int(mtu))
//@   ensures last [C16,C08]: mtu > 0 && payload != nil ==> fresh(result0[len(result0)-1]) && len(result0[len(result0)-1]) == len(payload) - (len(result0)-1)*int(mtu) && eqseq(result0[len(result0)-1], 0, payload, (len(result0)-1)*int(mtu), len(result0[len(result0)-1]))
//@   ensures last_bound [C16,C08]: mtu > 0 && payload != nil ==> len(result0[len(result0)-1]) <= int(mtu) && (len(payload) > 0 ==> len(result0[len(result0)-1]) >= 1)
//@   ensures owned [C08]: fresh(result0)
//@   loop 0: invariant consumed [C16,C08]: sameobj(payload, old(payload)) && off(payload) == off(old(payload)) + len(out)*int(mtu) && len(payload) == len(old(payload)) - len(out)*int(mtu) && len(payload) >= 0 && mtu > 0 && (len(old(payload)) > 0 ==> len(payload) > 0)
//@   loop 0: invariant out_fresh [C16,C08]: fresh(out) && len(out) >= 0
//@   loop 0: invariant frags [C16,C08]: fragsOf(out, len(out), old(payload), int(mtu))
//@   loop 0: invariant frag_bytes [C16,C08]: fragBytes(out, len(out), old(payload), int(mtu))
//@   loop 0: decreases len(payload)
//@ end

// Opus is passed through: one fragment equal to, and not aliasing, the input.
//@ spec (*OpusPayloader).Payload
//@   ensures nilinput [C16,C08]: payload == nil ==> len(result0) == 0
//@   ensures one [C16,C08]: payload != nil ==> len(result0) == 1 && fresh(result0) && fresh(result0[0]) && result0[0] != nil && len(result0[0]) == len(payload) && eqseq(result0[0], 0, payload, 0, len(payload))
//@ end

//@ spec (*OpusPacket).Unmarshal
//@   modifies p.*
//@   ensures nilpacket [C16]: packet == nil ==> errIs(err, errNilPacket) && len(result0) == 0
//@   ensures empty [C16]: packet != nil && len(packet) == 0 ==> errIs(err, errShortPacket) && len(result0) == 0
//@   ensures passthrough [C16]: len(packet) > 0 ==> err == nil && sameobj(result0, packet) && off(result0) == off(packet) && len(result0) == len(packet)
//@   ensures kept [C16,C09]: len(packet) > 0 ==> sameobj(p.Payload, packet) && off(p.Payload) == off(packet) && len(p.Payload) == len(packet)
//@ end
//@ spec (*audioDepacketizer).IsPartitionHead
//@   ensures always [C16,C09]: result0
//@ end
//@ spec (*audioDepacketizer).IsPartitionTail
//@   ensures always [C16,C09]: result0
//@ end
//@ spec (*OpusPartitionHeadChecker).IsPartitionHead
//@   ensures always [C16]: result0
//@ end

// ===== C11: VP8 payload descriptor (RFC 7741 section 4.2), written from the RFC's diagram =====
//
//       0 1 2 3 4 5 6 7
//      |X|R|N|S|R| PID | (REQUIRED)      octet 0
// X:   |I|L|T|K| RSV   | (OPTIONAL)      octet 1 when X
// I:   |M| PictureID   | (OPTIONAL)      one octet, two when M
// L:   |   TL0PICIDX   | (OPTIONAL)
// T/K: |TID|Y| KEYIDX  | (OPTIONAL)

//@ pure vp8X(p) = bits(p[0], 7, 7)
//@ pure vp8I(p) = ite(vp8X(p) == 1, bits(p[1], 7, 7), 0)
//@ pure vp8L(p) = ite(vp8X(p) == 1, bits(p[1], 6, 6), 0)
//@ pure vp8T(p) = ite(vp8X(p) == 1, bits(p[1], 5, 5), 0)
//@ pure vp8K(p) = ite(vp8X(p) == 1, bits(p[1], 4, 4), 0)
//@ pure vp8PidOff(p) = 1 + vp8X(p)
//@ pure vp8M(p) = ite(vp8I(p) == 1, bits(p[vp8PidOff(p)], 7, 7), 0)
//@ pure vp8TL0Off(p) = vp8PidOff(p) + ite(vp8I(p) == 1, 1 + vp8M(p), 0)
//@ pure vp8TKOff(p) = vp8TL0Off(p) + vp8L(p)
//@ pure vp8DescLen(p) = vp8TKOff(p) + ite(vp8T(p) == 1 || vp8K(p) == 1, 1, 0)

//@ spec (*VP8Packet).Unmarshal
//@   modifies p.*
//@   ensures nilpacket [C11,C09]: payload == nil ==> errIs(err, errNilPacket) && len(result0) == 0
//@   ensures cut_short [C11,C09]: payload != nil ==> ((err != nil) <==> len(payload) < vp8DescLen(payload))
//@   ensures short_err [C11]: payload != nil && err != nil ==> errIs(err, errShortPacket) && len(result0) == 0
//@   ensures first_octet [C11,C09]: err == nil ==> int(p.X) == vp8X(payload) && int(p.N) == bits(payload[0], 5, 5) && int(p.S) == bits(payload[0], 4, 4) && int(p.PID) == bits(payload[0], 2, 0)
//@   ensures ext_flags [C11,C09]: err == nil ==> int(p.I) == vp8I(payload) && int(p.L) == vp8L(payload) && int(p.T) == vp8T(payload) && int(p.K) == vp8K(payload)
//@   ensures picture_id [C11,C09]: err == nil ==> int(p.PictureID) == ite(vp8I(payload) == 1, ite(vp8M(payload) == 1, bits(payload[vp8PidOff(payload)], 6, 0) * 256 + int(payload[vp8PidOff(payload) + 1]), int(payload[vp8PidOff(payload)])), 0)
//@   ensures tl0picidx [C11,C09]: err == nil ==> int(p.TL0PICIDX) == ite(vp8L(payload) == 1, int(payload[vp8TL0Off(payload)]), 0)
//@   ensures tid_y_keyidx [C11,C09]: err == nil ==> int(p.TID) == ite(vp8T(payload) == 1, bits(payload[vp8TKOff(payload)], 7, 6), 0) && int(p.Y) == ite(vp8T(payload) == 1, bits(payload[vp8TKOff(payload)], 5, 5), 0) && int(p.KEYIDX) == ite(vp8K(payload) == 1, bits(payload[vp8TKOff(payload)], 4, 0), 0)
//@   ensures rest [C11,C09]: err == nil ==> sameobj(result0, payload) && off(result0) == off(payload) + vp8DescLen(payload) && len(result0) == len(payload) - vp8DescLen(payload)
//@   ensures kept [C11,C09]: err == nil ==> sameobj(p.Payload, payload) && off(p.Payload) == off(result0) && len(p.Payload) == len(result0)
//@ end
//@ spec (*VP8Packet).IsPartitionHead
//@   ensures s_bit [C11,C09]: result0 <==> (len(payload) >= 1 && bits(payload[0], 4, 4) == 1)
//@ end
//@ spec (*VP8PartitionHeadChecker).IsPartitionHead
//@   ensures s_bit [C11]: result0 <==> (len(packet) >= 1 && bits(packet[0], 4, 4) == 1)
//@ end

// VP8 payloader: descriptor length by picture-id form (7-bit below 128, 15-bit from 128).
//@ pure vp8Hdr(en, pid) = ite(en, ite(pid < 128, 3, 4), 1)
// descriptor octets of fragment j
//@ pure bool vp8DescOK(f, j, en, pid) = int(f[0]) == ite(j == 0, 16, 0) + ite(en, 128, 0) && (en ==> int(f[1]) == 128) && (en && pid < 128 ==> int(f[2]) == pid) && (en && pid >= 128 ==> int(f[2]) == 128 + pid / 256 && int(f[3]) == pid % 256)

//@ spec (*VP8Payloader).Payload
//@   requires p.pictureID < 32768
//@   modifies p.pictureID
//@   ensures none [C11,C08]: (int(mtu) - vp8Hdr(p.EnablePictureID, old(int(p.pictureID))) <= 0 || len(payload) == 0) ==> len(result0) == 0 && p.pictureID == old(p.pictureID)
//@   ensures next_id [C11]: int(mtu) - vp8Hdr(p.EnablePictureID, old(int(p.pictureID))) > 0 && len(payload) > 0 ==> int(p.pictureID) == (old(int(p.pictureID)) + 1) % 32768
//@   ensures count [C11]: int(mtu) - vp8Hdr(p.EnablePictureID, old(int(p.pictureID))) > 0 && len(payload) > 0 ==> len(result0) >= 1 && (len(result0) - 1) * (int(mtu) - vp8Hdr(p.EnablePictureID, old(int(p.pictureID)))) < len(payload) && len(payload) <= len(result0) * (int(mtu) - vp8Hdr(p.EnablePictureID, old(int(p.pictureID))))
//@   ensures sizes [C11,C08]: forall j :: 0 <= j && j < len(result0) ==> result0[j] != nil && fresh(result0[j]) && off(result0[j]) == 0 && len(result0[j]) == vp8Hdr(p.EnablePictureID, old(int(p.pictureID))) + min(int(mtu) - vp8Hdr(p.EnablePictureID, old(int(p.pictureID))), len(payload) - j * (int(mtu) - vp8Hdr(p.EnablePictureID, old(int(p.pictureID)))))
//@   ensures bound [C08]: forall j :: 0 <= j && j < len(result0) ==> 1 <= len(result0[j]) && len(result0[j]) <= int(mtu)
//@   ensures descriptors [C11]: forall j :: 0 <= j && j < len(result0) ==> vp8DescOK(result0[j], j, p.EnablePictureID, old(int(p.pictureID)))
//@   ensures frag_bytes [C11]: forall j, q :: 0 <= j && j < len(result0) && 0 <= q && q < len(result0[j]) - vp8Hdr(p.EnablePictureID, old(int(p.pictureID))) ==> result0[j][vp8Hdr(p.EnablePictureID, old(int(p.pictureID))) + q] == payload[j * (int(mtu) - vp8Hdr(p.EnablePictureID, old(int(p.pictureID)))) + q]
//@   ensures owned [C08]: fresh(result0)
//@   loop 0: invariant consts [C11,C08]: usingHeaderSize == vp8Hdr(p.EnablePictureID, int(p.pictureID)) && maxFragmentSize == int(mtu) - usingHeaderSize && maxFragmentSize >= 1 && sameobj(payloadData, payload) && off(payloadData) == off(payload) && len(payloadData) == len(payload) && p.pictureID == old(p.pictureID)
//@   loop 0: invariant progress [C11,C08]: payloadDataIndex >= 0 && payloadDataRemaining >= 0 && payloadDataIndex + payloadDataRemaining == len(payload) && payloadDataIndex == min(len(payloads) * maxFragmentSize, len(payload)) && (len(payloads) > 0 ==> (len(payloads) - 1) * maxFragmentSize < len(payload)) && (first <==> len(payloads) == 0) && len(payloads) >= 0 && fresh(payloads) && (len(payloads) == 0 ==> payloadDataRemaining > 0)
//@   loop 0: invariant sizes [C11,C08]: forall j :: 0 <= j && j < len(payloads) ==> payloads[j] != nil && fresh(payloads[j]) && off(payloads[j]) == 0 && len(payloads[j]) == usingHeaderSize + min(maxFragmentSize, len(payload) - j * maxFragmentSize)
//@   loop 0: invariant descriptors [C11]: forall j :: 0 <= j && j < len(payloads) ==> vp8DescOK(payloads[j], j, p.EnablePictureID, int(p.pictureID))
//@   loop 0: invariant frag_bytes [C11]: forall j, q :: 0 <= j && j < len(payloads) && 0 <= q && q < len(payloads[j]) - usingHeaderSize ==> payloads[j][usingHeaderSize + q] == payload[j * maxFragmentSize + q]
//@   loop 0: decreases payloadDataRemaining
//@ end

// ===== C14: H265 payload structures (RFC 7798 sections 1.1.4, 4.4.1-4.4.4), from the RFC's diagrams =====
//
// NAL unit / payload header: |F|Type(6)|LayerId(6)|TID(3)|
//@ spec (H265NALUHeader).F
//@   ensures bit [C14]: result0 <==> bits(h, 15, 15) == 1
//@ end
//@ spec (H265NALUHeader).Type
//@   ensures field [C14]: int(result0) == bits(h, 14, 9)
//@ end
//@ spec (H265NALUHeader).LayerID
//@   ensures field [C14]: int(result0) == bits(h, 8, 3)
//@ end
//@ spec (H265NALUHeader).TID
//@   ensures field [C14]: int(result0) == bits(h, 2, 0)
//@ end
//@ spec (H265NALUHeader).IsTypeVCLUnit
//@   ensures vcl [C14]: result0 <==> bits(h, 14, 9) < 32
//@ end
//@ spec (H265NALUHeader).IsAggregationPacket
//@   ensures t48 [C14]: result0 <==> bits(h, 14, 9) == 48
//@ end
//@ spec (H265NALUHeader).IsFragmentationUnit
//@   ensures t49 [C14]: result0 <==> bits(h, 14, 9) == 49
//@ end
//@ spec (H265NALUHeader).IsPACIPacket
//@   ensures t50 [C14]: result0 <==> bits(h, 14, 9) == 50
//@ end
// FU header: |S|E|FuType(6)|
//@ spec (H265FragmentationUnitHeader).S
//@   ensures bit [C14]: result0 <==> bits(h, 7, 7) == 1
//@ end
//@ spec (H265FragmentationUnitHeader).E
//@   ensures bit [C14]: result0 <==> bits(h, 6, 6) == 1
//@ end
//@ spec (H265FragmentationUnitHeader).FuType
//@   ensures field [C14]: int(result0) == bits(h, 5, 0)
//@ end
// PACI fields: |A|cType(6)|PHSsize(5)|F0|F1|F2|Y|
//@ spec (*H265PACIPacket).A
//@   ensures bit [C14]: result0 <==> bits(p.paciHeaderFields, 15, 15) == 1
//@ end
//@ spec (*H265PACIPacket).CType
//@   ensures field [C14]: int(result0) == bits(p.paciHeaderFields, 14, 9)
//@ end
//@ spec (*H265PACIPacket).PHSsize
//@   ensures field [C14]: int(result0) == bits(p.paciHeaderFields, 8, 4)
//@ end
//@ spec (*H265PACIPacket).F0
//@   ensures bit [C14]: result0 <==> bits(p.paciHeaderFields, 3, 3) == 1
//@ end
//@ spec (*H265PACIPacket).F1
//@   ensures bit [C14]: result0 <==> bits(p.paciHeaderFields, 2, 2) == 1
//@ end
//@ spec (*H265PACIPacket).F2
//@   ensures bit [C14]: result0 <==> bits(p.paciHeaderFields, 1, 1) == 1
//@ end
//@ spec (*H265PACIPacket).Y
//@   ensures bit [C14]: result0 <==> bits(p.paciHeaderFields, 0, 0) == 1
//@ end
// TSCI: |TL0PICIDX(8)|IrapPicID(8)|S|E|RES(6)| carried in the first three PHES octets
//@ spec (*H265PACIPacket).TSCI
//@   requires bits(p.paciHeaderFields, 8, 4) <= len(p.phes)
//@   ensures absent [C14]: (bits(p.paciHeaderFields, 3, 3) == 0 || bits(p.paciHeaderFields, 8, 4) < 3) ==> result0 == nil
//@   ensures present [C14]: bits(p.paciHeaderFields, 3, 3) == 1 && bits(p.paciHeaderFields, 8, 4) >= 3 ==> result0 != nil && fresh(result0) && int(*result0) / 256 == int(p.phes[0]) * 65536 + int(p.phes[1]) * 256 + int(p.phes[2])
//@ end
//@ spec (H265TSCI).TL0PICIDX
//@   ensures field [C14]: int(result0) == bits(h, 31, 24)
//@ end
//@ spec (H265TSCI).IrapPicID
//@   ensures field [C14]: int(result0) == bits(h, 23, 16)
//@ end
//@ spec (H265TSCI).S
//@   ensures bit [C14]: result0 <==> bits(h, 15, 15) == 1
//@ end
//@ spec (H265TSCI).E
//@   ensures bit [C14]: result0 <==> bits(h, 14, 14) == 1
//@ end
//@ spec (H265TSCI).RES
//@   ensures field [C14]: int(result0) == bits(h, 13, 8)
//@ end

//@ pure h265Type(p) = bits(p[0], 6, 1)
//@ pure bool h265Hdr(p) = len(p) > 2 && bits(p[0], 7, 7) == 0

// single NAL unit packet: payload header, optional DONL, NAL unit payload
//@ spec (*H265SingleNALUnitPacket).Unmarshal
//@   modifies p.*
//@   ensures nilp [C14,C09]: payload == nil ==> errIs(err, errNilPacket)
//@   ensures short [C14,C09]: payload != nil && len(payload) <= 2 ==> errIs(err, errShortPacket)
//@   ensures corrupted [C14]: len(payload) > 2 && bits(payload[0], 7, 7) == 1 ==> errIs(err, errH265CorruptedPacket)
//@   ensures accept [C14,C09]: (err == nil) <==> (h265Hdr(payload) && h265Type(payload) != 48 && h265Type(payload) != 49 && h265Type(payload) != 50 && (old(p.mightNeedDONL) ==> len(payload) > 4))
//@   ensures header [C14,C09]: err == nil ==> int(p.payloadHeader) == be16(payload, 0)
//@   ensures no_donl [C14,C09]: err == nil && !old(p.mightNeedDONL) ==> sameobj(p.payload, payload) && off(p.payload) == off(payload) + 2 && len(p.payload) == len(payload) - 2
//@   ensures donl [C14,C09]: err == nil && old(p.mightNeedDONL) ==> p.donl != nil && fresh(p.donl) && int(*p.donl) == be16(payload, 2) && sameobj(p.payload, payload) && off(p.payload) == off(payload) + 4 && len(p.payload) == len(payload) - 4
//@ end

// fragmentation unit: payload header (type 49), FU header, DONL only when S is set, FU payload
//@ spec (*H265FragmentationUnitPacket).Unmarshal
//@   modifies p.*
//@   ensures nilp [C14,C09]: payload == nil ==> errIs(err, errNilPacket)
//@   ensures short [C14,C09]: payload != nil && len(payload) <= 3 ==> errIs(err, errShortPacket)
//@   ensures corrupted [C14]: len(payload) > 3 && bits(payload[0], 7, 7) == 1 ==> errIs(err, errH265CorruptedPacket)
//@   ensures accept [C14,C09]: (err == nil) <==> (len(payload) > 3 && bits(payload[0], 7, 7) == 0 && h265Type(payload) == 49 && (old(p.mightNeedDONL) && bits(payload[2], 7, 7) == 1 ==> len(payload) > 5))
//@   ensures header [C14,C09]: err == nil ==> int(p.payloadHeader) == be16(payload, 0) && int(p.fuHeader) == int(payload[2])
//@   ensures no_donl [C14,C09]: err == nil && !(old(p.mightNeedDONL) && bits(payload[2], 7, 7) == 1) ==> sameobj(p.payload, payload) && off(p.payload) == off(payload) + 3 && len(p.payload) == len(payload) - 3
//@   ensures donl [C14,C09]: err == nil && old(p.mightNeedDONL) && bits(payload[2], 7, 7) == 1 ==> p.donl != nil && fresh(p.donl) && int(*p.donl) == be16(payload, 3) && sameobj(p.payload, payload) && off(p.payload) == off(payload) + 5 && len(p.payload) == len(payload) - 5
//@ end

// PACI: payload header (type 50), PACI fields, PHES of PHSsize octets, payload
//@ spec (*H265PACIPacket).Unmarshal
//@   modifies p.*
//@   ensures nilp [C14,C09]: payload == nil ==> errIs(err, errNilPacket)
//@   ensures short [C14,C09]: payload != nil && len(payload) <= 4 ==> errIs(err, errShortPacket)
//@   ensures accept [C14,C09]: (err == nil) <==> (len(payload) > 4 && bits(payload[0], 7, 7) == 0 && h265Type(payload) == 50 && len(payload) - 4 >= bits(be16(payload, 2), 8, 4) + 1)
//@   ensures fields [C14,C09]: err == nil ==> int(p.payloadHeader) == be16(payload, 0) && int(p.paciHeaderFields) == be16(payload, 2)
//@   ensures phes [C14,C09]: err == nil && bits(be16(payload, 2), 8, 4) > 0 ==> sameobj(p.phes, payload) && off(p.phes) == off(payload) + 4 && len(p.phes) == bits(be16(payload, 2), 8, 4)
//@   ensures rest [C14,C09]: err == nil ==> sameobj(p.payload, payload) && off(p.payload) == off(payload) + 4 + bits(be16(payload, 2), 8, 4) && len(p.payload) == len(payload) - 4 - bits(be16(payload, 2), 8, 4)
//@ end

// aggregation packet: payload header (type 48), optional DONL, then size-prefixed units (DOND before every later one)
//@ spec (*H265AggregationPacket).Unmarshal
//@   modifies p.*
//@   loop 0: decreases len(payload)
//@   loop 0: invariant inside [C14,C09]: sameobj(payload, old(payload)) && off(payload) >= off(old(payload)) && off(payload) + len(payload) == off(old(payload)) + len(old(payload)) && firstUnit != nil && fresh(firstUnit)
//@   loop 0: invariant units_fresh [C14,C09]: fresh(units) && len(units) >= 0 && p.mightNeedDONL == old(p.mightNeedDONL)
//@   loop 0: invariant first_kept [C14,C09]: !p.mightNeedDONL ==> int(firstUnit.nalUnitSize) == be16(old(payload), 2) && sameobj(firstUnit.nalUnit, old(payload)) && off(firstUnit.nalUnit) == off(old(payload)) + 4 && len(firstUnit.nalUnit) == be16(old(payload), 2)
//@   loop 0: invariant first_donl_kept [C14,C09]: p.mightNeedDONL ==> firstUnit.donl != nil && fresh(firstUnit.donl) && int(*firstUnit.donl) == be16(old(payload), 2) && int(firstUnit.nalUnitSize) == be16(old(payload), 4) && sameobj(firstUnit.nalUnit, old(payload)) && off(firstUnit.nalUnit) == off(old(payload)) + 6 && len(firstUnit.nalUnit) == be16(old(payload), 4)
//@   loop 0: invariant dond_own [C14]: p.mightNeedDONL ==> (forall a :: 0 <= a && a < len(units) ==> units[a].dond != nil && fresh(units[a].dond)) && (forall a, b :: 0 <= a && a < b && b < len(units) ==> !sameobj(units[a].dond, units[b].dond))
//@   ensures dond_own [C14]: err == nil && old(p.mightNeedDONL) ==> forall a, b :: 0 <= a && a < b && b < len(p.otherUnits) ==> p.otherUnits[a].dond != nil && p.otherUnits[b].dond != nil && !sameobj(p.otherUnits[a].dond, p.otherUnits[b].dond)
//@   ensures nilp [C14,C09]: payload == nil ==> errIs(err, errNilPacket)
//@   ensures short [C14,C09]: payload != nil && len(payload) <= 2 ==> errIs(err, errShortPacket)
//@   ensures wrongtype [C14]: h265Hdr(payload) && h265Type(payload) != 48 ==> errIs(err, errInvalidH265PacketType)
//@   ensures first [C14,C09]: err == nil && !old(p.mightNeedDONL) ==> p.firstUnit != nil && int(p.firstUnit.nalUnitSize) == be16(payload, 2) && sameobj(p.firstUnit.nalUnit, payload) && off(p.firstUnit.nalUnit) == off(payload) + 4 && len(p.firstUnit.nalUnit) == be16(payload, 2)
//@   ensures first_donl [C14,C09]: err == nil && old(p.mightNeedDONL) ==> p.firstUnit != nil && p.firstUnit.donl != nil && int(*p.firstUnit.donl) == be16(payload, 2) && int(p.firstUnit.nalUnitSize) == be16(payload, 4) && sameobj(p.firstUnit.nalUnit, payload) && off(p.firstUnit.nalUnit) == off(payload) + 6 && len(p.firstUnit.nalUnit) == be16(payload, 4)
//@   ensures two_or_more [C14]: err == nil ==> len(p.otherUnits) >= 1
//@ end

//@ spec (*H265Packet).IsPartitionHead
//@   ensures head [C14,C09]: result0 <==> (len(payload) >= 3 && (h265Type(payload) == 49 ==> bits(payload[2], 7, 7) == 1))
//@ end

//@ property C14 functions: (*H265Packet).Unmarshal
//@ property C09 functions: (*H265Packet).Unmarshal

// ===== C15 / C09 / C10 (decoder side): H264Packet =====

//@ global annexbNALUStartCode = bytes(0, 0, 0, 1)
//@ global naluStartCode = bytes(0, 0, 1)

// framing of one NAL unit: 4-byte big-endian length (AVC) or a 4-byte start code (Annex B), then the unit
//@ spec (*H264Packet).doPackaging
//@   requires !sameobj(buf, nalu)
//@   modifies buf[*cap]
//@   ensures length [C10,C15,C09]: len(result0) == len(buf) + 4 + len(nalu) && result0 != nil
//@   ensures prefix_kept [C10,C15]: eqseq(result0, 0, buf, 0, len(buf))
//@   ensures avc_length [C10,C15]: p.IsAVC ==> be32(result0, len(buf)) == len(nalu) % 4294967296
//@   ensures annexb_start_code [C10]: !p.IsAVC ==> be32(result0, len(buf)) == 1
//@   ensures unit [C10,C15]: eqseq(result0, len(buf) + 4, nalu, 0, len(nalu))
//@   ensures owned [C09]: fresh(result0) || (buf != nil && sameobj(result0, buf))
//@ end

//@ pure bool h264IsFUA(p) = bits(p[0], 4, 0) == 28
//@ spec (*H264Packet).parseBody
//@   requires p.fuaBuffer != nil ==> !sameobj(p.fuaBuffer, payload)
//@   modifies p.fuaBuffer, p.fuaBuffer[*cap]
//@   loop 0: invariant pos [C09,C10]: 1 <= currOffset && currOffset <= len(payload) && result != nil && fresh(result) && len(result) >= 0
//@   loop 0: invariant buffer_kept [C09,C15]: sameobj(p.fuaBuffer, old(p.fuaBuffer)) && off(p.fuaBuffer) == off(old(p.fuaBuffer)) && len(p.fuaBuffer) == len(old(p.fuaBuffer))
//@   loop 0: decreases len(payload) - currOffset
//@   ensures empty [C09,C10]: len(payload) == 0 ==> errIs(err, errShortPacket)
//@   ensures single [C10]: len(payload) > 0 && bits(payload[0], 4, 0) >= 1 && bits(payload[0], 4, 0) <= 23 ==> err == nil && len(result0) == 4 + len(payload) && eqseq(result0, 4, payload, 0, len(payload)) && (p.IsAVC ==> be32(result0, 0) == len(payload) % 4294967296)
//@   ensures unhandled [C10,C09]: len(payload) > 0 && (bits(payload[0], 4, 0) == 0 || (bits(payload[0], 4, 0) >= 25 && bits(payload[0], 4, 0) != 28)) ==> errIs(err, errUnhandledNALUType)
//@   ensures fua_short [C09,C15]: len(payload) == 1 && h264IsFUA(payload) ==> errIs(err, errShortPacket)
//@   ensures fua_start [C15]: len(payload) >= 2 && h264IsFUA(payload) && bits(payload[1], 7, 7) == 1 && bits(payload[1], 6, 6) == 0 ==> err == nil && len(result0) == 0 && len(p.fuaBuffer) == len(payload) - 2 && eqseq(p.fuaBuffer, 0, payload, 2, len(payload) - 2)
//@   ensures fua_start_end [C15]: len(payload) >= 2 && h264IsFUA(payload) && bits(payload[1], 7, 7) == 1 && bits(payload[1], 6, 6) == 1 ==> err == nil && p.fuaBuffer == nil && len(result0) == 4 + 1 + len(payload) - 2 && int(result0[4]) == bits(payload[0], 6, 5) * 32 + bits(payload[1], 4, 0) && eqseq(result0, 5, payload, 2, len(payload) - 2)
//@   ensures fua_continue [C15,C10]: len(payload) >= 2 && h264IsFUA(payload) && bits(payload[1], 7, 7) == 0 && bits(payload[1], 6, 6) == 0 ==> err == nil && len(result0) == 0 && len(p.fuaBuffer) == len(old(p.fuaBuffer)) + len(payload) - 2 && eqseq(p.fuaBuffer, len(old(p.fuaBuffer)), payload, 2, len(payload) - 2)
//@   ensures fua_end [C15,C10]: len(payload) >= 2 && h264IsFUA(payload) && bits(payload[1], 7, 7) == 0 && bits(payload[1], 6, 6) == 1 ==> err == nil && p.fuaBuffer == nil && len(result0) == 4 + 1 + len(old(p.fuaBuffer)) + len(payload) - 2 && int(result0[4]) == bits(payload[0], 6, 5) * 32 + bits(payload[1], 4, 0) && eqseq(result0, 5 + len(old(p.fuaBuffer)), payload, 2, len(payload) - 2)
//@   ensures buffer_owned [C09,C15]: p.fuaBuffer == nil || fresh(p.fuaBuffer) || (sameobj(p.fuaBuffer, old(p.fuaBuffer)) && old(p.fuaBuffer) != nil)
//@   ensures result_owned [C09]: err == nil ==> fresh(result0)
//@ end

//@ spec (*H264Packet).Unmarshal
//@   requires p.fuaBuffer != nil ==> !sameobj(p.fuaBuffer, payload)
//@   modifies p.fuaBuffer, p.fuaBuffer[*cap]
//@   ensures zero_alloc [C09]: p.zeroAllocation ==> err == nil && sameobj(result0, payload) && len(result0) == len(payload)
//@   ensures buffer_owned [C09,C15]: p.fuaBuffer == nil || fresh(p.fuaBuffer) || (sameobj(p.fuaBuffer, old(p.fuaBuffer)) && old(p.fuaBuffer) != nil)
//@ end

//@ spec (*H264Packet).IsPartitionHead
//@   ensures head [C10,C09]: result0 <==> (len(payload) >= 2 && ((bits(payload[0], 4, 0) == 28 || bits(payload[0], 4, 0) == 29) ==> bits(payload[1], 7, 7) == 1))
//@ end

// ===== C09: AV1Depacketizer never panics on any payload, and owns the fragment it keeps =====
//@ spec (*AV1Depacketizer).Unmarshal
//@   requires d.buffer != nil ==> !sameobj(d.buffer, payload)
//@   modifies d.*
//@   loop 0: invariant pos [C09]: 1 <= offset && offset <= len(payload) && obuOffset >= 0 && obuOffset <= offset && fresh(buff) && len(buff) >= 0 && int(obuCount) == bits(payload[0], 5, 4)
//@   loop 0: invariant flags [C09,C13]: (d.Z <==> bits(payload[0], 7, 7) == 1) && (d.Y <==> bits(payload[0], 6, 6) == 1) && (d.N <==> bits(payload[0], 3, 3) == 1) && (obuZ <==> d.Z) && (obuY <==> d.Y)
//@   loop 0: invariant resync [C15]: (!obuZ || obuN) && obuOffset == 0 ==> len(d.buffer) == 0
//@   loop 0: invariant owned [C09]: d.buffer == nil || fresh(d.buffer) || (old(d.buffer) != nil && sameobj(d.buffer, old(d.buffer)))
//@   loop 0: decreases len(payload) - offset + ite(obuOffset == 0, 1, 0)
//@   ensures short [C09]: len(payload) <= 1 ==> errIs(err, errShortPacket)
//@   ensures flags [C09,C13]: len(payload) > 1 ==> (d.Z <==> bits(payload[0], 7, 7) == 1) && (d.Y <==> bits(payload[0], 6, 6) == 1) && (d.N <==> bits(payload[0], 3, 3) == 1)
//@   ensures owned [C09]: d.buffer == nil || fresh(d.buffer) || (old(d.buffer) != nil && sameobj(d.buffer, old(d.buffer)))
//@   ensures result_owned [C09]: err == nil ==> fresh(buff)
//@ end
//@ spec (*AV1Depacketizer).IsPartitionHead
//@   ensures head [C09,C13]: result0 <==> (len(payload) >= 1 && bits(payload[0], 7, 7) == 0)
//@ end

// ===== C12 (decoder side) / C09: VP9 payload descriptor (draft-ietf-payload-vp9 section 4.2) =====
//
//      |I|P|L|F|B|E|V|Z|  then, when present: M|PICTURE ID (7 or 15 bits);  T|U|S|D (+ TL0PICIDX when F=0);
//      P_DIFF|N up to three times (F=1,P=1);  scalability structure (V)
//@ pure bool vp9I(p) = bits(p[0], 7, 7) == 1
//@ pure bool vp9P(p) = bits(p[0], 6, 6) == 1
//@ pure bool vp9L(p) = bits(p[0], 5, 5) == 1
//@ pure bool vp9F(p) = bits(p[0], 4, 4) == 1
//@ pure bool vp9V(p) = bits(p[0], 1, 1) == 1
//@ pure vp9PidLen(p) = ite(vp9I(p), ite(bits(p[1], 7, 7) == 1, 2, 1), 0)
//@ pure vp9LOff(p) = 1 + vp9PidLen(p)
//@ pure vp9RefOff(p) = vp9LOff(p) + ite(vp9L(p), ite(vp9F(p), 1, 2), 0)
//@ pure vp9NRef(p) = ite(vp9F(p) && vp9P(p), ite(bits(p[vp9RefOff(p)], 0, 0) == 0, 1, ite(bits(p[vp9RefOff(p) + 1], 0, 0) == 0, 2, 3)), 0)
//@ pure vp9SSOff(p) = vp9RefOff(p) + vp9NRef(p)
//@ pure bool vp9PidOK(p) = vp9I(p) ==> len(p) > 1 && len(p) > 1 + ite(bits(p[1], 7, 7) == 1, 1, 0)
//@ pure bool vp9LayerOK(p) = vp9L(p) ==> len(p) > vp9LOff(p) && bits(p[vp9LOff(p)], 3, 1) < 5 && (vp9F(p) || len(p) > vp9LOff(p) + 1)
//@ pure bool vp9RefOK(p) = vp9F(p) && vp9P(p) ==> len(p) > vp9RefOff(p) && (bits(p[vp9RefOff(p)], 0, 0) == 1 ==> len(p) > vp9RefOff(p) + 1 && (bits(p[vp9RefOff(p) + 1], 0, 0) == 1 ==> len(p) > vp9RefOff(p) + 2 && bits(p[vp9RefOff(p) + 2], 0, 0) == 0))
//@ pure bool vp9SSOK(p) = vp9V(p) ==> len(p) > vp9SSOff(p) && (bits(p[vp9SSOff(p)], 4, 4) == 1 ==> len(p) > vp9SSOff(p) + 4*bits(p[vp9SSOff(p)], 7, 5) + 4) && (bits(p[vp9SSOff(p)], 3, 3) == 1 ==> len(p) > vp9SSOff(p) + 1 + ite(bits(p[vp9SSOff(p)], 4, 4) == 1, 4*bits(p[vp9SSOff(p)], 7, 5) + 4, 0) && int(p[vp9SSOff(p) + 1 + ite(bits(p[vp9SSOff(p)], 4, 4) == 1, 4*bits(p[vp9SSOff(p)], 7, 5) + 4, 0)]) == 0)

// ----- VP9 payloader (C12 payloader half, C08) -----
//
// Flexible mode: every fragment is |I=1,F=1,B,E| M=1 PICTURE ID (15 bit) | then
// the next window of the frame; B on the first, E on the last fragment only.
//@ pure bool vp9FlexDescOK(f, j, n, pid) = int(f[0]) == 144 + ite(j == 0, 8, 0) + ite(j == n - 1, 4, 0) && int(f[1]) == 128 + pid / 256 && int(f[2]) == pid % 256
//@ spec (*VP9Payloader).payloadFlexible
//@   requires p.pictureID < 32768
//@   ensures none [C12,C08]: (int(mtu) <= 3 || len(payload) == 0) ==> len(result0) == 0
//@   ensures count [C12,C08]: int(mtu) > 3 && len(payload) > 0 ==> len(result0) >= 1 && (len(result0) - 1) * (int(mtu) - 3) < len(payload) && len(payload) <= len(result0) * (int(mtu) - 3)
//@   ensures sizes [C12,C08]: forall j :: 0 <= j && j < len(result0) ==> result0[j] != nil && fresh(result0[j]) && off(result0[j]) == 0 && len(result0[j]) == 3 + min(int(mtu) - 3, len(payload) - j * (int(mtu) - 3))
//@   ensures bound [C08,C12]: forall j :: 0 <= j && j < len(result0) ==> 4 <= len(result0[j]) && len(result0[j]) <= int(mtu)
//@   ensures descriptors [C12]: forall j :: 0 <= j && j < len(result0) ==> vp9FlexDescOK(result0[j], j, len(result0), int(p.pictureID))
//@   ensures frag_bytes [C12]: forall j, q :: 0 <= j && j < len(result0) && 0 <= q && q < len(result0[j]) - 3 ==> result0[j][3 + q] == payload[j * (int(mtu) - 3) + q]
//@   ensures owned [C08]: len(result0) > 0 ==> fresh(result0)
//@   loop 0: invariant consts [C12,C08]: headerSize == 3 && maxFragmentSize == int(mtu) - 3 && maxFragmentSize >= 1
//@   loop 0: invariant progress [C12,C08]: payloadDataIndex >= 0 && payloadDataRemaining >= 0 && payloadDataIndex + payloadDataRemaining == len(payload) && payloadDataIndex == min(len(payloads) * maxFragmentSize, len(payload)) && (len(payloads) > 0 ==> (len(payloads) - 1) * maxFragmentSize < len(payload)) && len(payloads) >= 0 && (len(payloads) > 0 ==> fresh(payloads)) && (len(payloads) == 0 ==> payloadDataRemaining > 0 && cap(payloads) == 0)
//@   loop 0: invariant sizes [C12,C08]: forall j :: 0 <= j && j < len(payloads) ==> payloads[j] != nil && fresh(payloads[j]) && off(payloads[j]) == 0 && len(payloads[j]) == 3 + min(maxFragmentSize, len(payload) - j * maxFragmentSize)
//@   loop 0: invariant descriptors [C12]: forall j :: 0 <= j && j < len(payloads) ==> int(payloads[j][0]) == 144 + ite(j == 0, 8, 0) + ite((j + 1) * maxFragmentSize >= len(payload), 4, 0) && int(payloads[j][1]) == 128 + int(p.pictureID) / 256 && int(payloads[j][2]) == int(p.pictureID) % 256
//@   loop 0: invariant frag_bytes [C12]: forall j, q :: 0 <= j && j < len(payloads) && 0 <= q && q < len(payloads[j]) - 3 ==> payloads[j][3 + q] == payload[j * maxFragmentSize + q]
//@   loop 0: decreases payloadDataRemaining
//@ end

// Non-flexible mode: |I=1,P,B,E,V,Z=1| M=1 PICTURE ID | and, on the first fragment
// of a key frame, an 8-octet scalability structure (N_S=0,Y=1,G=1 | WIDTH | HEIGHT |
// N_G=1 | TID=0,U=1,R=1 | P_DIFF=1); P is the frame type read from the frame header.
//@ pure vp9NFHdr(key, j) = ite(key && j == 0, 11, 3)
//@ pure vp9NFIdx(key, mtu, j, n) = min(n, ite(j == 0, 0, ite(key, mtu - 11, mtu - 3) + (j - 1) * (mtu - 3)))
//@ spec (*VP9Payloader).payloadNonFlexible
//@   requires p.pictureID < 32768
//@   ensures sizes [C12,C08]: forall j :: 0 <= j && j < len(result0) ==> result0[j] != nil && fresh(result0[j]) && off(result0[j]) == 0 && 4 <= len(result0[j]) && len(result0[j]) <= int(mtu)
//@   ensures picture_id [C12]: forall j :: 0 <= j && j < len(result0) ==> int(result0[j][1]) == 128 + int(p.pictureID) / 256 && int(result0[j][2]) == int(p.pictureID) % 256
//@   ensures begin_end [C12]: forall j :: 0 <= j && j < len(result0) ==> bits(result0[j][0], 7, 7) == 1 && bits(result0[j][0], 5, 4) == 0 && bits(result0[j][0], 0, 0) == 1 && (bits(result0[j][0], 3, 3) == 1 <==> j == 0) && (bits(result0[j][0], 2, 2) == 1 <==> j == len(result0) - 1) && (bits(result0[j][0], 1, 1) == 1 ==> j == 0)
//@   ensures ss_fixed [C12]: forall j :: 0 <= j && j < len(result0) && bits(result0[j][0], 1, 1) == 1 ==> len(result0[j]) >= 12 && int(result0[j][3]) == 24 && int(result0[j][8]) == 1 && int(result0[j][9]) == 20 && int(result0[j][10]) == 1
//@   ensures owned [C08]: len(result0) > 0 ==> fresh(result0)
//@   loop 0: invariant progress [C12,C08]: payloadDataIndex >= 0 && payloadDataRemaining >= 0 && payloadDataIndex + payloadDataRemaining == len(payload) && payloadDataIndex == vp9NFIdx(!header.NonKeyFrame, int(mtu), len(payloads), len(payload)) && (len(payloads) > 0 ==> int(mtu) > vp9NFHdr(!header.NonKeyFrame, 0) && fresh(payloads)) && (len(payloads) == 0 ==> cap(payloads) == 0) && len(payloads) >= 0 && (payloadDataIndex == 0 <==> len(payloads) == 0)
//@   loop 0: invariant started_inside [C12,C08]: forall j :: 0 <= j && j < len(payloads) ==> vp9NFIdx(!header.NonKeyFrame, int(mtu), j, len(payload)) < len(payload)
//@   loop 0: invariant next_started_inside [C12]: forall j :: 0 <= j && j + 1 < len(payloads) ==> vp9NFIdx(!header.NonKeyFrame, int(mtu), j + 1, len(payload)) < len(payload)
//@   loop 0: invariant sizes [C12,C08]: forall j :: 0 <= j && j < len(payloads) ==> payloads[j] != nil && fresh(payloads[j]) && off(payloads[j]) == 0 && len(payloads[j]) == vp9NFHdr(!header.NonKeyFrame, j) + min(int(mtu) - vp9NFHdr(!header.NonKeyFrame, j), len(payload) - vp9NFIdx(!header.NonKeyFrame, int(mtu), j, len(payload)))
//@   loop 0: invariant picture_id [C12]: forall j :: 0 <= j && j < len(payloads) ==> int(payloads[j][1]) == 128 + int(p.pictureID) / 256 && int(payloads[j][2]) == int(p.pictureID) % 256
//@   loop 0: invariant begin_end [C12]: forall j :: 0 <= j && j < len(payloads) ==> bits(payloads[j][0], 7, 7) == 1 && bits(payloads[j][0], 5, 4) == 0 && bits(payloads[j][0], 0, 0) == 1 && (bits(payloads[j][0], 3, 3) == 1 <==> j == 0) && (bits(payloads[j][0], 2, 2) == 1 <==> vp9NFIdx(!header.NonKeyFrame, int(mtu), j + 1, len(payload)) == len(payload)) && (bits(payloads[j][0], 1, 1) == 1 ==> j == 0)
//@   loop 0: invariant ss_fixed [C12]: forall j :: 0 <= j && j < len(payloads) && bits(payloads[j][0], 1, 1) == 1 ==> len(payloads[j]) >= 12 && int(payloads[j][3]) == 24 && int(payloads[j][8]) == 1 && int(payloads[j][9]) == 20 && int(payloads[j][10]) == 1
//@   loop 0: invariant frag_bytes [C12]: forall j, q :: 0 <= j && j < len(payloads) && 0 <= q && q < len(payloads[j]) - vp9NFHdr(!header.NonKeyFrame, j) ==> payloads[j][vp9NFHdr(!header.NonKeyFrame, j) + q] == payload[vp9NFIdx(!header.NonKeyFrame, int(mtu), j, len(payload)) + q]
//@   loop 0: decreases payloadDataRemaining
//@ end

// Payload: the running 15-bit picture id is constant within a frame and advances
// by one per frame modulo 2^15; InitialPictureIDFn is a function value (any
// 16-bit result), masked to 15 bits on first use.
//@ spec (*VP9Payloader).Payload
//@   requires p.initialized ==> p.pictureID < 32768
//@   modifies p.*
//@   ensures id_in_range [C12]: p.pictureID < 32768 && p.initialized
//@   ensures id_advances [C12]: old(p.initialized) ==> int(p.pictureID) == (int(old(p.pictureID)) + 1) % 32768
//@   ensures fragments_bounded [C08,C12]: forall j :: 0 <= j && j < len(result0) ==> result0[j] != nil && fresh(result0[j]) && 4 <= len(result0[j]) && len(result0[j]) <= int(mtu)
//@   ensures frame_id [C12]: old(p.initialized) ==> forall j :: 0 <= j && j < len(result0) ==> int(result0[j][1]) == 128 + int(old(p.pictureID)) / 256 && int(result0[j][2]) == int(old(p.pictureID)) % 256
//@ end

//@ spec (*VP9Packet).parsePictureID
//@   requires 0 <= pos
//@   modifies p.PictureID
//@   ensures short [C09,C12]: len(packet) <= pos ==> errIs(err, errShortPacket)
//@   ensures accepted [C12]: len(packet) > pos && len(packet) > pos + ite(bits(packet[pos], 7, 7) == 1, 1, 0) ==> err == nil
//@   ensures value [C12,C09]: err == nil ==> result0 == pos + ite(bits(packet[pos], 7, 7) == 1, 2, 1) && result0 <= len(packet) && int(p.PictureID) == ite(bits(packet[pos], 7, 7) == 1, bits(packet[pos], 6, 0) * 256 + int(packet[pos + 1]), bits(packet[pos], 6, 0))
//@ end
//@ spec (*VP9Packet).parseLayerInfo
//@   requires 0 <= pos
//@   modifies p.TID, p.U, p.SID, p.D, p.TL0PICIDX
//@   ensures short [C09,C12]: len(packet) <= pos ==> errIs(err, errShortPacket)
//@   ensures value [C12,C09]: err == nil ==> int(p.TID) == bits(packet[pos], 7, 5) && (p.U <==> bits(packet[pos], 4, 4) == 1) && int(p.SID) == bits(packet[pos], 3, 1) && (p.D <==> bits(packet[pos], 0, 0) == 1)
//@   ensures accepted [C12]: len(packet) > pos && bits(packet[pos], 3, 1) < 5 && (p.F || len(packet) > pos + 1) ==> err == nil
//@   ensures tl0 [C12,C09]: err == nil ==> result0 == pos + ite(p.F, 1, 2) && result0 <= len(packet) && (!p.F ==> int(p.TL0PICIDX) == int(packet[pos + 1])) && (p.F ==> p.TL0PICIDX == old(p.TL0PICIDX))
//@ end
//@ spec (*VP9Packet).parseRefIndices
//@   requires 0 <= pos
//@   requires len(p.PDiff) == 0 && cap(p.PDiff) == 0
//@   modifies p.PDiff
//@   loop 0: unroll 4 complete
//@   ensures short [C09,C12]: len(packet) <= pos ==> errIs(err, errShortPacket)
//@   ensures accepted [C12]: len(packet) > pos && (bits(packet[pos], 0, 0) == 1 ==> len(packet) > pos + 1 && (bits(packet[pos + 1], 0, 0) == 1 ==> len(packet) > pos + 2 && bits(packet[pos + 2], 0, 0) == 0)) ==> err == nil
//@   ensures count [C12,C09]: err == nil ==> len(p.PDiff) == ite(bits(packet[pos], 0, 0) == 0, 1, ite(bits(packet[pos + 1], 0, 0) == 0, 2, 3)) && result0 == pos + len(p.PDiff) && result0 <= len(packet)
//@   ensures values [C12,C09]: err == nil ==> (forall k :: 0 <= k && k < len(p.PDiff) ==> int(p.PDiff[k]) == bits(packet[pos + k], 7, 1))
//@ end
//@ spec (*VP9Packet).parseSSData
//@   requires 0 <= pos
//@   requires len(p.PGTID) == 0 && cap(p.PGTID) == 0 && len(p.PGU) == 0 && cap(p.PGU) == 0 && len(p.PGPDiff) == 0 && cap(p.PGPDiff) == 0
//@   modifies p.NS, p.Y, p.G, p.NG, p.Width, p.Height, p.PGTID, p.PGU, p.PGPDiff
//@   loop 0: invariant sizes [C09,C12]: 0 <= i && i <= int(NS) && int(NS) == int(p.NS) + 1 && pos == old(pos) + 1 + 4*i && pos <= len(packet) && len(p.Width) == int(NS) && len(p.Height) == int(NS) && fresh(p.Width) && fresh(p.Height) && !sameobj(p.Width, p.Height)
//@   loop 0: invariant values [C12]: forall k :: 0 <= k && k < i ==> int(p.Width[k]) == be16(packet, old(pos) + 1 + 4*k) && int(p.Height[k]) == be16(packet, old(pos) + 3 + 4*k)
//@   loop 1: invariant groups [C09,C12]: 0 <= i && i <= int(p.NG) && old(pos) < pos && pos <= len(packet) && len(p.PGPDiff) == i && len(p.PGTID) == i && len(p.PGU) == i && (fresh(p.PGPDiff) || cap(p.PGPDiff) == 0) && (fresh(p.PGTID) || cap(p.PGTID) == 0) && (fresh(p.PGU) || cap(p.PGU) == 0)
//@   loop 1: decreases 256 - i
//@   loop 2: unroll 4 complete
//@   ensures short [C09,C12]: len(packet) <= pos ==> errIs(err, errShortPacket)
//@   ensures accepted_without_groups [C12]: len(packet) > pos && (bits(packet[pos], 4, 4) == 1 ==> len(packet) > pos + 4*bits(packet[pos], 7, 5) + 4) && (bits(packet[pos], 3, 3) == 1 ==> len(packet) > pos + 1 + ite(bits(packet[pos], 4, 4) == 1, 4*bits(packet[pos], 7, 5) + 4, 0) && int(packet[pos + 1 + ite(bits(packet[pos], 4, 4) == 1, 4*bits(packet[pos], 7, 5) + 4, 0)]) == 0) ==> err == nil
//@   ensures head [C12,C09]: err == nil ==> int(p.NS) == bits(packet[pos], 7, 5) && (p.Y <==> bits(packet[pos], 4, 4) == 1) && (p.G <==> bits(packet[pos], 3, 3) == 1)
//@   ensures resolutions [C12,C09]: err == nil && p.Y ==> len(p.Width) == int(p.NS) + 1 && len(p.Height) == int(p.NS) + 1 && (forall k :: 0 <= k && k <= int(p.NS) ==> int(p.Width[k]) == be16(packet, pos + 1 + 4*k) && int(p.Height[k]) == be16(packet, pos + 3 + 4*k))
//@   ensures no_resolutions [C12,C09]: err == nil && !p.Y ==> len(p.Width) == len(old(p.Width)) && len(p.Height) == len(old(p.Height))
//@   ensures groups [C12,C09]: err == nil ==> len(p.PGTID) == int(p.NG) && len(p.PGU) == int(p.NG) && len(p.PGPDiff) == int(p.NG) && (!p.G ==> p.NG == 0) && (p.G ==> int(p.NG) == int(packet[pos + 1 + ite(p.Y, 4*int(p.NS) + 4, 0)]))
//@   ensures consumed [C12,C09]: err == nil ==> pos < result0 && result0 <= len(packet)
//@ end

//@ spec (*VP9Packet).Unmarshal
//@   modifies p.*
//@   ensures nilpacket [C12,C09]: packet == nil ==> errIs(err, errNilPacket)
//@   ensures empty [C12,C09]: packet != nil && len(packet) == 0 ==> errIs(err, errShortPacket)
//@   ensures accepted [C12]: len(packet) >= 1 && vp9PidOK(packet) && vp9LayerOK(packet) && vp9RefOK(packet) && vp9SSOK(packet) ==> err == nil
//@   ensures flags [C12,C09]: err == nil ==> (p.I <==> vp9I(packet)) && (p.P <==> vp9P(packet)) && (p.L <==> vp9L(packet)) && (p.F <==> vp9F(packet)) && (p.B <==> bits(packet[0], 3, 3) == 1) && (p.E <==> bits(packet[0], 2, 2) == 1) && (p.V <==> vp9V(packet)) && (p.Z <==> bits(packet[0], 0, 0) == 1)
//@   ensures picture_id [C12,C09]: err == nil ==> int(p.PictureID) == ite(vp9I(packet), ite(bits(packet[1], 7, 7) == 1, bits(packet[1], 6, 0) * 256 + int(packet[2]), bits(packet[1], 6, 0)), 0)
//@   ensures layer [C12,C09]: err == nil ==> int(p.TID) == ite(vp9L(packet), bits(packet[vp9LOff(packet)], 7, 5), 0) && (p.U <==> vp9L(packet) && bits(packet[vp9LOff(packet)], 4, 4) == 1) && int(p.SID) == ite(vp9L(packet), bits(packet[vp9LOff(packet)], 3, 1), 0) && (p.D <==> vp9L(packet) && bits(packet[vp9LOff(packet)], 0, 0) == 1)
//@   ensures tl0picidx [C12,C09]: err == nil ==> int(p.TL0PICIDX) == ite(vp9L(packet) && !vp9F(packet), int(packet[vp9LOff(packet) + 1]), 0)
//@   ensures ref_indices [C12,C09]: err == nil ==> len(p.PDiff) == vp9NRef(packet) && (forall k :: 0 <= k && k < len(p.PDiff) ==> int(p.PDiff[k]) == bits(packet[vp9RefOff(packet) + k], 7, 1))
//@   ensures no_ss [C12,C09]: err == nil && !vp9V(packet) ==> sameobj(result0, packet) && off(result0) == off(packet) + vp9SSOff(packet) && len(result0) == len(packet) - vp9SSOff(packet) && len(p.Width) == 0 && len(p.Height) == 0 && len(p.PGTID) == 0 && len(p.PGU) == 0 && len(p.PGPDiff) == 0 && p.NS == 0 && p.NG == 0 && !p.Y && !p.G
//@   ensures ss_head [C12,C09]: err == nil && vp9V(packet) ==> int(p.NS) == bits(packet[vp9SSOff(packet)], 7, 5) && (p.Y <==> bits(packet[vp9SSOff(packet)], 4, 4) == 1) && (p.G <==> bits(packet[vp9SSOff(packet)], 3, 3) == 1) && (p.Y ==> len(p.Width) == int(p.NS) + 1 && len(p.Height) == int(p.NS) + 1) && len(p.PGTID) == int(p.NG) && len(p.PGU) == int(p.NG) && len(p.PGPDiff) == int(p.NG)
//@   ensures ss_resolutions [C12,C09]: err == nil && vp9V(packet) && p.Y ==> (forall k :: 0 <= k && k <= int(p.NS) ==> int(p.Width[k]) == be16(packet, vp9SSOff(packet) + 1 + 4*k) && int(p.Height[k]) == be16(packet, vp9SSOff(packet) + 3 + 4*k))
//@   ensures ss_groups [C12,C09]: err == nil && vp9V(packet) ==> (!p.G ==> p.NG == 0) && (p.G ==> int(p.NG) == int(packet[vp9SSOff(packet) + 1 + ite(p.Y, 4*int(p.NS) + 4, 0)]))
//@   ensures kept [C12,C09]: err == nil ==> sameobj(result0, packet) && sameobj(p.Payload, packet) && off(p.Payload) == off(result0) && len(p.Payload) == len(result0) && off(result0) + len(result0) == off(packet) + len(packet)
//@ end
//@ spec (*VP9Packet).IsPartitionHead
//@   ensures b_bit [C12,C09]: result0 <==> (len(payload) >= 1 && bits(payload[0], 3, 3) == 1)
//@ end

// ===== C09: the deprecated AV1Packet never panics on any payload =====
//@ spec (*AV1Packet).parseBody
//@   requires p != nil
//@   loop 0: invariant walk [C09]: currentIndex <= len(payload) && 1 <= i && i <= int(currentIndex) + 1 && len(obuElements) >= 0 && fresh(obuElements)
//@   loop 0: decreases 2 * (len(payload) - int(currentIndex)) + ite(bits(byte(i), 7, 0) == int(p.W), 0, 1)
//@   ensures cached [C09]: old(p.OBUElements) != nil ==> result1 == nil && sameobj(result0, old(p.OBUElements))
//@ end
//@ spec (*AV1Packet).Unmarshal
//@   modifies p.Z, p.Y, p.N, p.W, p.OBUElements
//@   ensures nilpacket [C09]: payload == nil ==> errIs(result1, errNilPacket)
//@   ensures short [C09]: payload != nil && len(payload) < 2 ==> errIs(result1, errShortPacket)
//@   ensures flags [C09,C13]: result1 == nil ==> (p.Z <==> bits(payload[0], 7, 7) == 1) && (p.Y <==> bits(payload[0], 6, 6) == 1) && int(p.W) == bits(payload[0], 5, 4) && (p.N <==> bits(payload[0], 3, 3) == 1) && !(p.Z && p.N)
//@   ensures rest [C09]: result1 == nil ==> sameobj(result0, payload) && off(result0) == off(payload) + 1 && len(result0) == len(payload) - 1
//@ end

// ===== C08 (and the FU-A size clauses of C10): H264Payloader =====
//
// bytes.Index: position of the first occurrence, or -1.
//@ trusted-spec bytes.Index
//@   ensures found [C08]: result0 == -1 || (0 <= result0 && result0 + len(sep) <= len(s) && eqseq(s, result0, sep, 0, len(sep)))
//@ end
//
// The Annex-B splitter and the per-NAL-unit closure are executed inside Payload
// (they have no life of their own: the closure writes Payload's fragment list);
// their loops carry invariants about Payload's variables.
//@ pure bool sameSlice(a, b) = sameobj(a, b) && off(a) == off(b) && len(a) == len(b)
//@ pure bool h264Frags(ps, n, mtu) = forall k :: 0 <= k && k < n ==> ps[k] != nil && fresh(ps[k]) && 1 <= len(ps[k]) && len(ps[k]) <= mtu
//@ spec (*H264Payloader).Payload>emitNalus
//@   inline
//@   loop 0: invariant captured [C08]: p == old(p) && mtu == old(mtu) && sameSlice(nals, old(payload))
//@   loop 0: invariant scan [C08]: 0 <= start && (offset == 3 || offset == 4) && start + offset <= length && length == len(nals) && int(nals[start + offset - 1]) == 1
//@   loop 0: invariant frags [C08]: (fresh(payloads) || cap(payloads) == 0) && len(payloads) >= 0 && h264Frags(payloads, len(payloads), int(mtu))
//@   loop 0: invariant state [C08]: (p.spsNalu == nil || fresh(p.spsNalu) || sameSlice(p.spsNalu, old(p.spsNalu))) && (p.ppsNalu == nil || fresh(p.ppsNalu) || sameSlice(p.ppsNalu, old(p.ppsNalu)))
//@   loop 0: decreases length - start
//@ end
// index of the first fragment this call adds for the unit itself: after the STAP-A, if one is emitted
//@ pure h264F(n0, dis, sps, pps, mtu) = n0 + ite(!dis && sps != nil && pps != nil && 5 + len(sps) + len(pps) <= mtu, 1, 0)
//@ spec (*H264Payloader).Payload$1
//@   requires p != nil
//@   modifies ref(payloads).*, payloads[*cap], p.spsNalu, p.ppsNalu
//@   loop 0: invariant fua [C08,C10]: naluRemaining >= 0 && naluIndex >= 1 && naluIndex + naluRemaining == len(nalu) && maxFragmentSize == int(mtu) - 2 && maxFragmentSize >= 1
//@   loop 0: invariant grown [C08]: len(payloads) >= len(old(payloads)) && (fresh(payloads) || (sameobj(payloads, old(payloads)) && off(payloads) == off(old(payloads)) && cap(payloads) == cap(old(payloads))))
//@   loop 0: invariant kept [C08]: forall k :: 0 <= k && k < len(old(payloads)) ==> sameSlice(payloads[k], old(payloads[k]))
//@   loop 0: invariant added [C08,C10]: forall k :: len(old(payloads)) <= k && k < len(payloads) ==> payloads[k] != nil && fresh(payloads[k]) && 1 <= len(payloads[k]) && len(payloads[k]) <= int(mtu)
//@   loop 0: invariant state [C08]: (p.spsNalu == nil || fresh(p.spsNalu) || sameSlice(p.spsNalu, old(p.spsNalu))) && (p.ppsNalu == nil || fresh(p.ppsNalu) || sameSlice(p.ppsNalu, old(p.ppsNalu)))
//@   loop 0: invariant fu_progress [C10]: len(nalu) > int(mtu) && naluLength == len(nalu) - 1 && int(naluType) == bits(nalu[0], 4, 0) && int(naluRefIdc) == bits(nalu[0], 6, 5) * 32 && len(payloads) >= h264F(len(old(payloads)), p.DisableStapA, old(p.spsNalu), old(p.ppsNalu), int(mtu)) && naluIndex == 1 + min((len(payloads) - h264F(len(old(payloads)), p.DisableStapA, old(p.spsNalu), old(p.ppsNalu), int(mtu))) * maxFragmentSize, len(nalu) - 1)
//@   loop 0: invariant fu_shape [C10]: forall k :: h264F(len(old(payloads)), p.DisableStapA, old(p.spsNalu), old(p.ppsNalu), int(mtu)) <= k && k < len(payloads) ==> int(payloads[k][0]) == 28 + bits(nalu[0], 6, 5) * 32 && bits(payloads[k][1], 4, 0) == bits(nalu[0], 4, 0) && bits(payloads[k][1], 5, 5) == 0 && (bits(payloads[k][1], 7, 7) == 1 <==> k == h264F(len(old(payloads)), p.DisableStapA, old(p.spsNalu), old(p.ppsNalu), int(mtu))) && len(payloads[k]) == 2 + min(maxFragmentSize, len(nalu) - 1 - (k - h264F(len(old(payloads)), p.DisableStapA, old(p.spsNalu), old(p.ppsNalu), int(mtu))) * maxFragmentSize)
//@   loop 0: decreases naluRemaining
//@   ensures grown [C08]: len(payloads) >= len(old(payloads)) && (fresh(payloads) || (sameobj(payloads, old(payloads)) && off(payloads) == off(old(payloads)) && cap(payloads) == cap(old(payloads))))
//@   ensures kept [C08]: forall k :: 0 <= k && k < len(old(payloads)) ==> sameSlice(payloads[k], old(payloads[k]))
//@   ensures added [C08,C10]: forall k :: len(old(payloads)) <= k && k < len(payloads) ==> payloads[k] != nil && fresh(payloads[k]) && 1 <= len(payloads[k]) && len(payloads[k]) <= int(mtu)
//@   ensures state [C08]: (p.spsNalu == nil || fresh(p.spsNalu) || sameSlice(p.spsNalu, old(p.spsNalu))) && (p.ppsNalu == nil || fresh(p.ppsNalu) || sameSlice(p.ppsNalu, old(p.ppsNalu)))
//@   ensures fu_a [C10]: len(nalu) > int(mtu) && int(mtu) > 2 && bits(nalu[0], 4, 0) != 9 && bits(nalu[0], 4, 0) != 12 && (p.DisableStapA || (bits(nalu[0], 4, 0) != 7 && bits(nalu[0], 4, 0) != 8)) ==> len(payloads) >= h264F(len(old(payloads)), p.DisableStapA, old(p.spsNalu), old(p.ppsNalu), int(mtu)) + 2 && (forall k :: h264F(len(old(payloads)), p.DisableStapA, old(p.spsNalu), old(p.ppsNalu), int(mtu)) <= k && k < len(payloads) ==> int(payloads[k][0]) == 28 + bits(nalu[0], 6, 5) * 32 && bits(payloads[k][1], 4, 0) == bits(nalu[0], 4, 0) && (bits(payloads[k][1], 7, 7) == 1 <==> k == h264F(len(old(payloads)), p.DisableStapA, old(p.spsNalu), old(p.ppsNalu), int(mtu))))
//@   ensures dropped [C10]: len(nalu) == 0 || bits(nalu[0], 4, 0) == 9 || bits(nalu[0], 4, 0) == 12 ==> len(payloads) == len(old(payloads))
//@   ensures held_back [C10]: len(nalu) > 0 && !p.DisableStapA && (bits(nalu[0], 4, 0) == 7 || bits(nalu[0], 4, 0) == 8) ==> len(payloads) == len(old(payloads))
//@   ensures single_unit [C10]: len(nalu) > 0 && len(nalu) <= int(mtu) && bits(nalu[0], 4, 0) != 9 && bits(nalu[0], 4, 0) != 12 && (p.DisableStapA || (bits(nalu[0], 4, 0) != 7 && bits(nalu[0], 4, 0) != 8)) ==> len(payloads) >= len(old(payloads)) + 1 && len(payloads[len(payloads) - 1]) == len(nalu) && eqseq(payloads[len(payloads) - 1], 0, nalu, 0, len(nalu))
//@ end
//@ spec (*H264Payloader).Payload
//@   modifies p.spsNalu, p.ppsNalu
//@   ensures bounded [C08,C10]: h264Frags(result0, len(result0), int(mtu))
//@   ensures owned [C08]: len(result0) > 0 ==> fresh(result0)
//@   ensures state_owned [C08]: (p.spsNalu == nil || fresh(p.spsNalu) || sameSlice(p.spsNalu, old(p.spsNalu))) && (p.ppsNalu == nil || fresh(p.ppsNalu) || sameSlice(p.ppsNalu, old(p.ppsNalu)))
//@ end

// ===== C08 / C13: AV1Payloader =====
//
// Size of a LEB128 length field and the amount that fits together with it.
//@ spec (*AV1Payloader).leb128Size
//@   ensures size [C08,C13]: size == ite(leb128 >= 268435456, 5, ite(leb128 >= 2097152, 4, ite(leb128 >= 16384, 3, ite(leb128 >= 128, 2, 1)))) && (isAtEge ==> leb128 >= 128)
//@ end
//@ spec (*AV1Payloader).computeWriteSize
//@   requires 1 <= wantToWrite && wantToWrite <= canWrite && canWrite >= 2 && canWrite < 1000000
//@   ensures fits [C08,C13]: 1 <= result0 && result0 <= wantToWrite && result0 + lebLenInt(result0) <= canWrite
//@ end
//@ pure lebLenInt(x) = ite(x < 128, 1, ite(x < 16384, 2, ite(x < 2097152, 3, ite(x < 268435456, 4, 5))))
//
//@ pure bool av1Packets(ps, n) = forall k :: 0 <= k && k < n ==> ps[k] != nil && fresh(ps[k]) && len(ps[k]) >= 1
//@ pure bool av1Distinct(ps, n) = forall a, b :: 0 <= a && a < b && b < n ==> !sameobj(ps[a], ps[b])
//@ spec (*AV1Payloader).Payload>(*AV1Payloader).appendOBUPayload
//@   inline
//@   loop 0: invariant frag [C08]: remaining == len(obuPayload) && remaining >= 0 && currentPayload == len(payloads) - 1 && currentPayload >= 0 && mtu >= 2 && mtu <= 65535 && fresh(payloads) && toWrite >= 0 && 0 <= currentOBUCount && currentOBUCount <= obusInPacket + 1
//@   loop 0: invariant packets [C08]: av1Packets(payloads, len(payloads))
//@   loop 0: invariant distinct [C08]: av1Distinct(payloads, len(payloads))
//@   loop 0: decreases remaining
//@ end
//@ spec (*AV1Payloader).Payload
//@   thorough-only
//@   loop 0: invariant walk [C08]: 0 <= offset && offset <= len(payload) && mtu >= 2 && 0 <= obusInPacket && obusInPacket <= offset && (fresh(payloads) || cap(payloads) == 0) && len(payloads) >= 0 && (currentOBUPayload == nil || fresh(currentOBUPayload))
//@   loop 0: invariant packets [C08]: av1Packets(payloads, len(payloads))
//@   loop 0: invariant distinct [C08]: av1Distinct(payloads, len(payloads))
//@   loop 0: decreases len(payload) - offset
//@   ensures nothing [C08,C13]: (mtu <= 1 || len(payload) == 0) ==> len(payloads) == 0
//@   ensures owned [C08]: av1Packets(payloads, len(payloads)) && (len(payloads) > 0 ==> fresh(payloads))
//@ end
