package main

import (
	"fmt"
	"go/constant"
	"go/token"
	"go/types"
	"math/big"
	"sort"
	"strings"

	"golang.org/x/tools/go/ssa"
)

// Val is a tuple of SMT Int terms, one per leaf cell of the Go value.
type Val []string

type State struct {
	pc    string
	vars  map[*ssa.Alloc]Val // non-escaping scalar locals
	heaps map[string]string  // one nested array per leaf kind
	A     string             // allocation counter
	regs  map[ssa.Value]Val
	hist  *big.Int // block visits on some path to this state
	outer []map[ssa.Value]Val // registers of the functions this (inlined) frame was called from
	lane  string   // states of different lanes (exits of unrolled loops at different iterations) are not merged
}

var heapKinds = []string{"u8", "i8", "u16", "i16", "u32", "i32", "int", "u64", "bool", "ref", "flt"}

const maxLen = "281474976710656" // 2^48

func (s *State) clone() *State {
	n := &State{pc: s.pc, A: s.A, hist: s.hist, lane: s.lane, outer: s.outer, vars: make(map[*ssa.Alloc]Val, len(s.vars)), heaps: make(map[string]string, len(s.heaps)), regs: make(map[ssa.Value]Val, len(s.regs))}
	for k, v := range s.regs {
		n.regs[k] = v
	}
	for k, v := range s.vars {
		n.vars[k] = v
	}
	for k, v := range s.heaps {
		n.heaps[k] = v
	}
	return n
}

type edge struct {
	from *ssa.BasicBlock
	cond string
	st   *State
}

type retPoint struct {
	st   *State
	vals Val
	pos  token.Pos
	blk  int
}

// narrowInfo: what a call-free loop can write, beyond the caller-visible frame.
type narrowRegion struct{ obj, lo, hi string }
type narrowInfo struct {
	known    []narrowRegion // cells stored through field paths rooted outside the loop
	exclTags []int          // tags of objects that element writes of the loop's slice types can land in
}

type frameLoc struct {
	obj, lo, hi string
	typ         types.Type // static type of the region's object (struct for p.*, element type for s[*])
	elems       bool       // a slice's element region (s[*], s[*cap])
}

// Exec symbolically executes one SSA function (the root under contract, or an
// inlined callee sharing the root's context).
type Exec struct {
	p     *Prog
	c     *Ctx
	fn    *ssa.Function
	spec  *FuncSpec
	root  *Exec
	name  string // obligation-name prefix
	depth int
	rets  []retPoint
	entry *State // state right after parameter binding
	args  Val
	// root only
	frame    []frameLoc
	frameAll bool // root has no spec: no frame obligations (safety sweep only)
	A0       string
	H0       map[string]string
	props    []string
	counters map[string]int
	trusted  map[string]bool
	inlined  map[string]bool
	bounded  map[string]bool
	closures map[string]*closureVal
	defers   []*ssa.Defer
	loopOrd  map[*ssa.BasicBlock]int
	oldEnv   *Env
	unrollK  int
	loops    map[*ssa.BasicBlock]*loopInfo
	loopsByLane map[loopKey]*loopInfo
	doneBlk  map[*ssa.BasicBlock]bool
	boundedBy []string
	nlanes   int
	pruneDir string
	callFree map[string]SV // captured variables of the closure whose contract is being applied
	freeMap  map[string]SV // (closure verified on its own) its captured variables
	curFlow  func(from, to *ssa.BasicBlock, cond string, s *State)
	blockDone *ssa.BasicBlock
	splitN   int
	rootScoped bool // inlined closure / helper with a Root>callee contract: spec names and old() are the root's
	lastNarrow *narrowInfo
	instDone map[string]bool
	prunePos string
	pruneN   int
	pruned   int
	invHeader *ssa.BasicBlock // loop whose invariant is being evaluated
}

type closureVal struct {
	fn       *ssa.Function
	bindings []Val
}

type engineError struct{ msg string }

func fail(format string, a ...any) { panic(engineError{fmt.Sprintf(format, a...)}) }

func isScalarLocal(a *ssa.Alloc) bool {
	return !a.Heap && !isAggregate(a.Type().(*types.Pointer).Elem())
}

func zeroVal(t types.Type) Val {
	ls := leaves(t)
	v := make(Val, len(ls))
	for i := range ls {
		v[i] = "0"
	}
	return v
}

// ---- state merging ----

func (e *Exec) merge(es []edge) *State {
	c := e.c
	if len(es) == 1 {
		s := es[0].st.clone()
		s.pc = c.and(s.pc, es[0].cond)
		return s
	}
	out := &State{vars: map[*ssa.Alloc]Val{}, heaps: map[string]string{}, regs: map[ssa.Value]Val{}, hist: new(big.Int), lane: es[0].st.lane, outer: es[0].st.outer}
	for _, ed := range es {
		if ed.st.hist != nil {
			out.hist = new(big.Int).Or(out.hist, ed.st.hist)
		}
	}
	pcs := make([]string, len(es))
	out.pc = "false"
	for i, ed := range es {
		pcs[i] = c.and(ed.st.pc, ed.cond)
		out.pc = c.or(out.pc, pcs[i])
	}
	// registers: normally every incoming state agrees (SSA dominance); after loop
	// unrolling the same instruction may carry different values on different edges
	for i, ed := range es {
		for k, v := range ed.st.regs {
			old, have := out.regs[k]
			if !have || len(old) != len(v) || v == nil {
				out.regs[k] = v
				continue
			}
			same := true
			for j := range v {
				if v[j] != old[j] {
					same = false
				}
			}
			if same {
				continue
			}
			m := make(Val, len(v))
			for j := range v {
				m[j] = c.ite("Int", pcs[i], v[j], old[j])
			}
			out.regs[k] = m
		}
	}
	pick := func(sort string, get func(*State) string) string {
		r := get(es[len(es)-1].st)
		for i := len(es) - 2; i >= 0; i-- {
			r = c.ite(sort, pcs[i], get(es[i].st), r)
		}
		return r
	}
	out.A = pick("Int", func(s *State) string { return s.A })
	for _, k := range heapKinds {
		k := k
		out.heaps[k] = pick("HP", func(s *State) string { return s.heaps[k] })
	}
	keys := map[*ssa.Alloc]bool{}
	for _, ed := range es {
		for a := range ed.st.vars {
			keys[a] = true
		}
	}
	for a := range keys {
		n := cells(a.Type().(*types.Pointer).Elem())
		v := make(Val, n)
		for j := 0; j < n; j++ {
			j := j
			v[j] = pick("Int", func(s *State) string {
				if x, ok := s.vars[a]; ok {
					return x[j]
				}
				return "0"
			})
		}
		out.vars[a] = v
	}
	return out
}

func (e *Exec) boolToInt(b string) string { return e.c.ite("Int", b, "1", "0") }
func (e *Exec) intToBool(i string) string {
	if i == "1" {
		return "true"
	}
	if i == "0" {
		return "false"
	}
	return e.c.B("(= %s 1)", i)
}

// ---- values ----

func (e *Exec) val(s *State, v ssa.Value) Val {
	switch x := v.(type) {
	case *ssa.Const:
		return e.constVal(x)
	case *ssa.Global:
		return Val{e.p.globalObj(x), "0"}
	case *ssa.Function:
		id := e.p.funcID(x)
		return Val{id}
	case *ssa.Builtin:
		return Val{"778"}
	}
	r, ok := s.regs[v]
	if !ok {
		fail("%s: no value for %s = %v", e.name, v.Name(), v)
	}
	return r
}

func (e *Exec) constVal(k *ssa.Const) Val {
	t := k.Type()
	if k.Value == nil {
		return zeroVal(t)
	}
	switch k.Value.Kind() {
	case constant.Bool:
		if constant.BoolVal(k.Value) {
			return Val{"1"}
		}
		return Val{"0"}
	case constant.Int:
		bi, _ := new(big.Int).SetString(k.Value.ExactString(), 10)
		return Val{lit(bi)}
	case constant.String:
		return Val{"999", fmt.Sprint(len(constant.StringVal(k.Value)))}
	case constant.Float:
		return Val{"0"}
	}
	fail("const %v kind %v", k, k.Value.Kind())
	return nil
}

// ---- memory ----

func (e *Exec) load(s *State, obj, cell string, t types.Type) Val {
	c := e.c
	ls := leaves(t)
	out := make(Val, len(ls))
	for i, l := range ls {
		addr := cell
		if i > 0 {
			addr = c.add(cell, fmt.Sprint(i))
		}
		var v string
		if r, ok := c.readHeap(s.heaps[l.kind], obj, addr); ok {
			v = r // resolved syntactically through the store chain
		} else {
			v = c.I("(select (select %s %s) %s)", s.heaps[l.kind], obj, addr)
		}
		// heap well-typedness (Go type safety): every cell of heap kind k holds a value of k's range
		c.assume("true", c.inRange(v, l))
		if !l.signed && l.bits > 0 && l.bits < 64 {
			c.setMax(v, new(big.Int).Sub(pow2(l.bits), big.NewInt(1)))
		}
		out[i] = v
	}
	e.assumeTyped(s, out, t)
	return out
}

// structural typing facts for composite values
func (e *Exec) assumeTyped(s *State, v Val, t types.Type) {
	c := e.c
	if c.raw > 0 && len(c.rawFacts) == 0 {
		return
	}
	switch u := t.Underlying().(type) {
	case *types.Slice:
		obj, off, ln, cp := v[0], v[1], v[2], v[3]
		c.assume(s.pc, c.B("(and (<= 0 %s) (< %s %s) (<= 0 %s) (<= 0 %s) (<= %s %s) (<= %s %s) (<= %s %s) (=> (= %s 0) (and (= %s 0) (= %s 0))) (=> (not (= %s 0)) (= (tag %s) %d)))",
			obj, obj, s.A, off, ln, ln, cp, cp, maxLen, off, maxLen, obj, cp, off, obj, obj, e.p.tagOf(u.Elem())))
		if _, dup := c.objTags[obj]; !dup {
			c.objTags[obj] = []int{e.p.tagOf(u.Elem())}
		}
	case *types.Pointer:
		c.assume(s.pc, c.B("(and (<= 0 %s) (< %s %s) (<= 0 %s) (=> (= %s 0) (= %s 0)))", v[0], v[0], s.A, v[1], v[0], v[1]))
		if tags := e.p.containerTags(u.Elem()); len(tags) > 0 {
			var alts []string
			for _, tg := range tags {
				alts = append(alts, fmt.Sprintf("(= (tag %s) %d)", v[0], tg))
			}
			c.assume(s.pc, c.B("(=> (not (= %s 0)) (or %s false))", v[0], strings.Join(alts, " ")))
			if _, dup := c.objTags[v[0]]; !dup {
				c.objTags[v[0]] = tags
			}
		}
	case *types.Struct:
		off := 0
		for i := 0; i < u.NumFields(); i++ {
			n := cells(u.Field(i).Type())
			e.assumeTyped(s, v[off:off+n], u.Field(i).Type())
			off += n
		}
	case *types.Array:
		n := cells(u.Elem())
		if u.Len() <= 16 {
			for i := 0; i < int(u.Len()); i++ {
				e.assumeTyped(s, v[i*n:(i+1)*n], u.Elem())
			}
		}
	case *types.Basic:
		ls := leaves(t)
		if len(ls) == 1 {
			c.assume("true", c.inRange(v[0], ls[0]))
		}
	case *types.Interface, *types.Signature:
		c.assume("true", c.B("(<= 0 %s)", v[0]))
	}
}

func (e *Exec) inFrame(obj, cell string) string {
	r := e.root
	c := e.c
	parts := []string{fmt.Sprintf("(<= %s %s)", r.A0, obj)}
	for _, f := range r.frame {
		parts = append(parts, fmt.Sprintf("(and (= %s %s) (<= %s %s) (< %s %s))", obj, f.obj, f.lo, cell, cell, f.hi))
	}
	return c.B("(or %s false)", strings.Join(parts, " "))
}

func (e *Exec) frameCheck(s *State, in ssa.Instruction, obj, lo, hi string) {
	r := e.root
	if r.frameAll {
		return
	}
	c := e.c
	var cond string
	if lo == hi || hi == "" {
		cond = e.inFrame(obj, lo)
	} else {
		// a whole range [lo,hi): fresh object, or empty, or inside one frame location
		parts := []string{fmt.Sprintf("(<= %s %s)", r.A0, obj), fmt.Sprintf("(<= %s %s)", hi, lo)}
		for _, f := range r.frame {
			parts = append(parts, fmt.Sprintf("(and (= %s %s) (<= %s %s) (<= %s %s))", obj, f.obj, f.lo, lo, hi, f.hi))
		}
		cond = c.B("(or %s)", strings.Join(parts, " "))
	}
	c.oblige(e.obl("frame", "write", in), s.pc, cond)
}

func (e *Exec) store(s *State, in ssa.Instruction, obj, cell string, t types.Type, v Val) {
	c := e.c
	ls := leaves(t)
	if len(v) != len(ls) {
		fail("store arity %d vs %d for %v", len(v), len(ls), t)
	}
	if len(ls) == 0 {
		return
	}
	if in != nil {
		e.frameCheck(s, in, obj, cell, c.I("(+ %s %d)", cell, len(ls)))
	}
	for i, l := range ls {
		addr := cell
		if i > 0 {
			addr = c.add(cell, fmt.Sprint(i))
		}
		h := s.heaps[l.kind]
		s.heaps[l.kind] = c.H("(store %s %s (store (select %s %s) %s %s))", h, obj, h, obj, addr, v[i])
	}
}

func (e *Exec) alloc(s *State, t types.Type) string {
	c := e.c
	obj := s.A
	s.A = c.I("(+ %s 1)", obj)
	c.assume(s.pc, c.B("(= (tag %s) %d)", obj, e.p.tagOf(t)))
	c.objTags[obj] = []int{e.p.tagOf(t)}
	c.nonNil[obj] = true
	seen := map[string]bool{}
	for _, l := range leaves(t) {
		if !seen[l.kind] {
			seen[l.kind] = true
			h := s.heaps[l.kind]
			s.heaps[l.kind] = c.H("(store %s %s zeroRow)", h, obj)
		}
	}
	return obj
}

// ---- obligation naming ----

func (e *Exec) obl(kind, label string, in ssa.Instruction) *Obl {
	r := e.root
	key := e.name + ":" + kind + ":" + label
	r.counters[key]++
	name := key
	if kind == "safety" || kind == "frame" || kind == "requires" || kind == "guard" {
		name = fmt.Sprintf("%s#%d", key, r.counters[key])
	} else if r.counters[key] > 1 {
		name = fmt.Sprintf("%s#%d", key, r.counters[key])
	}
	pos := ""
	if in != nil && in.Pos().IsValid() {
		p := e.p.fset.Position(in.Pos())
		pos = fmt.Sprintf("%s:%d", shortFile(p.Filename), p.Line)
	}
	return &Obl{Name: name, Func: r.name, Kind: kind, Label: label, Props: r.props, Pos: pos, rootFn: r.name}
}

func shortFile(f string) string {
	if i := strings.LastIndex(f, "/"); i >= 0 {
		return f[i+1:]
	}
	return f
}

func (e *Exec) nilCheck(s *State, in ssa.Instruction, obj string) {
	e.c.oblige(e.obl("safety", "nil", in), s.pc, e.c.B("(not (= %s 0))", obj))
}

// ---- instruction semantics ----

func (e *Exec) step(s *State, in ssa.Instruction) {
	c := e.c
	switch x := in.(type) {
	case *ssa.Alloc:
		et := x.Type().(*types.Pointer).Elem()
		if isScalarLocal(x) {
			s.vars[x] = zeroVal(et)
			s.regs[x] = nil
		} else {
			obj := e.alloc(s, et)
			s.regs[x] = Val{obj, "0"}
		}
	case *ssa.Store:
		if a, ok := x.Addr.(*ssa.Alloc); ok && isScalarLocal(a) {
			s.vars[a] = e.val(s, x.Val)
			return
		}
		p := e.val(s, x.Addr)
		e.nilCheck(s, in, p[0])
		e.guardCheck(s, x.Addr, in)
		e.store(s, in, p[0], p[1], x.Val.Type(), e.val(s, x.Val))
	case *ssa.UnOp:
		e.unop(s, x)
	case *ssa.BinOp:
		s.regs[x] = e.binop(s, x)
	case *ssa.FieldAddr:
		p := e.val(s, x.X)
		e.nilCheck(s, in, p[0])
		st := x.X.Type().Underlying().(*types.Pointer).Elem().Underlying().(*types.Struct)
		off := fieldOffset(st, x.Field)
		s.regs[x] = Val{p[0], c.add(p[1], fmt.Sprint(off))}
	case *ssa.Field:
		v := e.val(s, x.X)
		st := x.X.Type().Underlying().(*types.Struct)
		off := fieldOffset(st, x.Field)
		s.regs[x] = v[off : off+cells(st.Field(x.Field).Type())]
	case *ssa.IndexAddr:
		idx := e.val(s, x.Index)[0]
		switch xt := x.X.Type().Underlying().(type) {
		case *types.Slice:
			sl := e.val(s, x.X)
			c.oblige(e.obl("safety", "index", in), s.pc, c.B("(and (<= 0 %s) (< %s %s))", idx, idx, sl[2]))
			n := cells(xt.Elem())
			s.regs[x] = Val{sl[0], c.add(sl[1], c.mulK(idx, n))}
			if e.root.spec != nil && e.root.spec.InstReads {
				e.instantiateAt(s, sl[0], idx)
			}
		case *types.Pointer:
			arr := xt.Elem().Underlying().(*types.Array)
			p := e.val(s, x.X)
			e.nilCheck(s, in, p[0])
			c.oblige(e.obl("safety", "index", in), s.pc, c.B("(and (<= 0 %s) (< %s %d))", idx, idx, arr.Len()))
			n := cells(arr.Elem())
			s.regs[x] = Val{p[0], c.add(p[1], c.mulK(idx, n))}
		default:
			fail("IndexAddr on %s", x.X.Type())
		}
	case *ssa.Index:
		// array value or string indexing
		idx := e.val(s, x.Index)[0]
		switch xt := x.X.Type().Underlying().(type) {
		case *types.Array:
			v := e.val(s, x.X)
			n := cells(xt.Elem())
			c.oblige(e.obl("safety", "index", in), s.pc, c.B("(and (<= 0 %s) (< %s %d))", idx, idx, xt.Len()))
			res := make(Val, n)
			for j := 0; j < n; j++ {
				cur := v[j]
				for k := 1; k < int(xt.Len()); k++ {
					cur = c.ite("Int", c.B("(= %s %d)", idx, k), v[k*n+j], cur)
				}
				res[j] = cur
			}
			s.regs[x] = res
		default:
			fail("Index on %s", x.X.Type())
		}
	case *ssa.Slice:
		e.slice(s, x)
	case *ssa.MakeSlice:
		ln, cp := e.val(s, x.Len)[0], e.val(s, x.Cap)[0]
		// negative sizes panic; sizes beyond 2^48 elements cannot be allocated (the engine's
		// standing no-out-of-memory assumption): such a make does not return
		c.oblige(e.obl("safety", "makeslice", in), s.pc, c.B("(and (<= 0 %s) (<= %s %s))", ln, ln, cp))
		c.assume(s.pc, c.B("(<= %s %s)", cp, maxLen))
		et := x.Type().Underlying().(*types.Slice).Elem()
		obj := e.alloc(s, et)
		s.regs[x] = Val{obj, "0", ln, cp}
	case *ssa.Convert:
		s.regs[x] = e.convert(s, x)
	case *ssa.ChangeType:
		s.regs[x] = e.val(s, x.X)
	case *ssa.ChangeInterface:
		s.regs[x] = e.val(s, x.X)
	case *ssa.MakeInterface:
		v := e.val(s, x.X)
		id := c.fresh("Int", "iface")
		c.assume("true", c.B("(< 0 %s)", id))
		e.p.ifaceObj[id] = v
		e.p.ifaceTyp[id] = x.X.Type()
		s.regs[x] = Val{id}
	case *ssa.MakeClosure:
		fn := x.Fn.(*ssa.Function)
		id := fmt.Sprintf("%d", 5000+len(e.root.closures))
		cv := &closureVal{fn: fn}
		for _, b := range x.Bindings {
			cv.bindings = append(cv.bindings, e.val(s, b))
		}
		e.root.closures[id] = cv
		s.regs[x] = Val{id}
	case *ssa.Phi:
		fail("phi handled at block entry")
	case *ssa.Extract:
		tup := e.val(s, x.Tuple)
		tt := x.Tuple.Type().(*types.Tuple)
		off := 0
		for i := 0; i < x.Index; i++ {
			off += cells(tt.At(i).Type())
		}
		s.regs[x] = tup[off : off+cells(tt.At(x.Index).Type())]
	case *ssa.Call:
		e.call(s, x, x.Common(), x)
	case *ssa.Defer:
		e.defers = append(e.defers, x)
		// argument values are evaluated now
		var args Val
		for _, a := range x.Call.Args {
			args = append(args, e.val(s, a)...)
		}
		s.regs[deferKey{x}] = args
	case *ssa.RunDefers:
		for i := len(e.defers) - 1; i >= 0; i-- {
			e.call(s, e.defers[i], &e.defers[i].Call, nil)
		}
	case *ssa.DebugRef:
	case *ssa.Panic:
		c.oblige(e.obl("safety", "panic", in), s.pc, "false")
	default:
		fail("%s: unsupported instruction %T: %v", e.name, in, in)
	}
}

type deferKey struct{ d *ssa.Defer }

func (deferKey) Name() string                  { return "defer" }
func (deferKey) String() string                { return "defer" }
func (deferKey) Type() types.Type              { return nil }
func (deferKey) Parent() *ssa.Function         { return nil }
func (deferKey) Referrers() *[]ssa.Instruction { return nil }
func (deferKey) Pos() token.Pos                { return token.NoPos }

func (e *Exec) unop(s *State, x *ssa.UnOp) {
	c := e.c
	switch x.Op {
	case token.MUL: // load
		if a, ok := x.X.(*ssa.Alloc); ok && isScalarLocal(a) {
			s.regs[x] = s.vars[a]
			return
		}
		if g, ok := x.X.(*ssa.Global); ok {
			if v, ok := e.p.globalValue(e, s, g); ok {
				s.regs[x] = v
				return
			}
		}
		p := e.val(s, x.X)
		e.nilCheck(s, x, p[0])
		e.guardCheck(s, x.X, x)
		s.regs[x] = e.load(s, p[0], p[1], x.Type())
	case token.NOT:
		s.regs[x] = Val{c.I("(- 1 %s)", e.val(s, x.X)[0])}
	case token.SUB:
		l := leaves(x.Type())[0]
		raw := c.I("(- %s)", e.val(s, x.X)[0])
		if l.signed && l.bits == 64 && c.raw == 0 && !cmpLitOnly.MatchString(raw) && e.root.spec != nil && e.root.spec.OverflowChecked {
			h := pow2(63)
			c.oblige(e.obl("safety", "overflow", x), s.pc, c.B("(< %s %s)", raw, h))
			s.regs[x] = Val{raw}
			return
		}
		s.regs[x] = Val{c.wrap(raw, l)}
	case token.XOR:
		l := leaves(x.Type())[0]
		if l.signed {
			s.regs[x] = Val{c.I("(- (- %s) 1)", e.val(s, x.X)[0])}
		} else {
			s.regs[x] = Val{c.I("(- %s %s)", new(big.Int).Sub(pow2(l.bits), big.NewInt(1)), e.val(s, x.X)[0])}
		}
	default:
		fail("unop %s", x.Op)
	}
}

func constInt(v ssa.Value) (*big.Int, bool) {
	k, ok := v.(*ssa.Const)
	if !ok || k.Value == nil || k.Value.Kind() != constant.Int {
		return nil, false
	}
	bi, ok := new(big.Int).SetString(k.Value.ExactString(), 10)
	return bi, ok
}

// x & mask for a constant mask; x is the unsigned representation
func (c *Ctx) andConst(x string, mask *big.Int, bits int) string {
	var parts []string
	i := 0
	for i < bits {
		if mask.Bit(i) == 0 {
			i++
			continue
		}
		j := i
		for j < bits && mask.Bit(j) == 1 {
			j++
		}
		t := x
		if i > 0 {
			t = c.I("(div %s %s)", x, pow2(i))
		}
		if j < bits {
			t = c.I("(mod %s %s)", t, pow2(j-i))
		}
		if i > 0 {
			t = c.I("(* %s %s)", t, pow2(i))
		}
		parts = append(parts, t)
		i = j
	}
	if len(parts) == 0 {
		return "0"
	}
	if len(parts) == 1 {
		return parts[0]
	}
	return c.I("(+ %s)", strings.Join(parts, " "))
}

// unsigned representation of a (possibly signed) value at width bits
func (c *Ctx) toUnsigned(x string, l leaf) string {
	if !l.signed {
		return x
	}
	if u, ok := c.uOf[x]; ok {
		return u
	}
	if m := c.getMax(x); m != nil { // known non-negative
		return x
	}
	if v, ok := isLit(x); ok {
		return v.String()
	}
	if strings.HasPrefix(x, "(- ") {
		if v, ok := new(big.Int).SetString(strings.TrimSuffix(strings.TrimPrefix(x, "(- "), ")"), 10); ok {
			return new(big.Int).Sub(pow2(l.bits), v).String()
		}
	}
	return c.I("(mod %s %s)", x, pow2(l.bits))
}
func (c *Ctx) fromUnsigned(x string, l leaf) string {
	if !l.signed {
		return x
	}
	if m := c.getMax(x); m != nil && m.Cmp(pow2(l.bits-1)) < 0 {
		return x
	}
	r := c.I("(ite (>= %s %s) (- %s %s) %s)", x, pow2(l.bits-1), x, pow2(l.bits), x)
	if c.raw == 0 {
		c.uOf[r] = x
	}
	return r
}

func (c *Ctx) bitwise(op token.Token, a, b string, bits int) string {
	// single-bit chunks of both operands (linear defining equations, shared by
	// every later use of the same operand), then the truth table per bit
	bitsOf := func(x string) []string {
		out := make([]string, bits)
		if c.raw > 0 {
			for i := 0; i < bits; i++ {
				out[i] = c.I("(mod (div %s %s) 2)", x, pow2(i))
			}
			return out
		}
		r := c.repOf(x, bits)
		for i := 0; i < bits; i++ {
			out[i] = c.termOf(c.sliceBits(r, i, i+1))
			r = c.normalize(r)
		}
		return out
	}
	ba, bb := bitsOf(a), bitsOf(b)
	var parts []string
	for i := 0; i < bits; i++ {
		var bit string
		switch op {
		case token.OR:
			bit = c.I("(ite (>= (+ %s %s) 1) 1 0)", ba[i], bb[i])
		case token.AND:
			bit = c.I("(ite (= (+ %s %s) 2) 1 0)", ba[i], bb[i])
		case token.AND_NOT:
			bit = c.I("(ite (and (= %s 1) (= %s 0)) 1 0)", ba[i], bb[i])
		default:
			bit = c.I("(ite (= (+ %s %s) 1) 1 0)", ba[i], bb[i])
		}
		if bit == "0" {
			continue
		}
		parts = append(parts, c.mulK(bit, 1<<uint(i)))
	}
	if len(parts) == 0 {
		return "0"
	}
	if bits > 62 {
		// mulK takes an int: rebuild with big constants
		parts = parts[:0]
		for i := 0; i < bits; i++ {
			var bit string
			switch op {
			case token.OR:
				bit = c.I("(ite (>= (+ %s %s) 1) 1 0)", ba[i], bb[i])
			case token.AND:
				bit = c.I("(ite (= (+ %s %s) 2) 1 0)", ba[i], bb[i])
			case token.AND_NOT:
				bit = c.I("(ite (and (= %s 1) (= %s 0)) 1 0)", ba[i], bb[i])
			default:
				bit = c.I("(ite (= (+ %s %s) 1) 1 0)", ba[i], bb[i])
			}
			parts = append(parts, c.I("(* %s %s)", pow2(i), bit))
		}
	}
	if len(parts) == 1 {
		return parts[0]
	}
	return c.I("(+ %s)", strings.Join(parts, " "))
}

func (e *Exec) binop(s *State, x *ssa.BinOp) Val {
	c := e.c
	a, b := e.val(s, x.X), e.val(s, x.Y)
	cmp := func(op string) Val { return Val{e.boolToInt(c.B("(%s %s %s)", op, a[0], b[0]))} }
	switch x.Op {
	case token.EQL, token.NEQ:
		var eq string
		if _, isSlice := x.X.Type().Underlying().(*types.Slice); isSlice {
			other := a
			if k, ok := x.X.(*ssa.Const); ok && k.Value == nil {
				other = b
			}
			eq = c.B("(= %s 0)", other[0])
		} else if isString(x.X.Type()) {
			eq = c.B("(= %s 1)", c.fresh("Int", "streq"))
		} else {
			eq = "true"
			for i := range a {
				eq = c.and(eq, c.B("(= %s %s)", a[i], b[i]))
			}
		}
		if x.Op == token.NEQ {
			eq = c.not(eq)
		}
		return Val{e.boolToInt(eq)}
	case token.LSS:
		return cmp("<")
	case token.LEQ:
		return cmp("<=")
	case token.GTR:
		return cmp(">")
	case token.GEQ:
		return cmp(">=")
	}
	l := leaves(x.Type())[0]
	if l.kind == "flt" {
		return Val{c.fresh("Int", "flt")}
	}
	if l.kind == "bool" {
		// & | on bools do not occur after SSA lowering except via AND/OR on bool operands
		switch x.Op {
		case token.AND:
			return Val{c.I("(* %s %s)", a[0], b[0])}
		case token.OR:
			return Val{c.I("(ite (>= (+ %s %s) 1) 1 0)", a[0], b[0])}
		}
		fail("bool binop %s", x.Op)
	}
	if isString(x.Type()) {
		return Val{"999", c.fresh("Int", "strlen")}
	}
	res := func(t string) Val { return Val{t} }
	if !l.signed && l.bits <= 64 {
		if k, ok := constInt(x.Y); !(x.Op == token.SHL || x.Op == token.SHR) || (ok && k.Sign() >= 0 && k.BitLen() < 16) {
			if t, ok := c.unsignedFast(x.Op.String(), a[0], b[0], l.bits); ok {
				return res(t)
			}
		}
	}
	switch x.Op {
	case token.ADD, token.SUB, token.MUL:
		op := map[token.Token]string{token.ADD: "+", token.SUB: "-", token.MUL: "*"}[x.Op]
		raw := c.I("(%s %s %s)", op, a[0], b[0])
		if l.signed && l.bits == 64 && c.raw == 0 && e.root.spec != nil && e.root.spec.OverflowChecked {
			// int / int64: absence of overflow is an obligation of its own (as for index
			// arithmetic in any RTE-style verifier); once discharged the exact result is used,
			// which keeps the rest of the VC linear. (Unsigned and narrower types wrap, as Go defines.)
			if _, isL := isLit(raw); !isL && !cmpLitOnly.MatchString(raw) {
				h := pow2(63)
				c.oblige(e.obl("safety", "overflow", x), s.pc, c.B("(and (<= (- %s) %s) (< %s %s))", h, raw, raw, h))
				return res(raw)
			}
		}
		return res(c.wrap(raw, l))
	case token.QUO, token.REM:
		c.oblige(e.obl("safety", "divzero", x), s.pc, c.B("(not (= %s 0))", b[0]))
		if !l.signed {
			if x.Op == token.QUO {
				r := c.I("(div %s %s)", a[0], b[0])
				if m := c.getMax(a[0]); m != nil {
					if k, ok := constInt(x.Y); ok && k.Sign() > 0 {
						c.setMax(r, new(big.Int).Div(m, k))
					} else {
						c.setMax(r, m)
					}
				}
				return res(r)
			}
			r := c.I("(mod %s %s)", a[0], b[0])
			if k, ok := constInt(x.Y); ok && k.Sign() > 0 {
				c.setMax(r, new(big.Int).Sub(k, big.NewInt(1)))
			}
			return res(r)
		}
		if k, ok := constInt(x.Y); ok && k.Sign() > 0 {
			// positive constant divisor: no overflow possible, one case split on the dividend's sign
			// truncation toward zero = floor of the dividend shifted by k-1 when it is negative (one div)
			q := c.I("(div (+ %s (ite (< %s 0) %s 0)) %s)", a[0], a[0], new(big.Int).Sub(k, big.NewInt(1)), b[0])
			if m := c.getMax(a[0]); m != nil {
				q = c.I("(div %s %s)", a[0], b[0])
				c.setMax(q, new(big.Int).Div(m, k))
			}
			if x.Op == token.QUO {
				return res(q)
			}
			r := c.I("(- %s (* %s %s))", a[0], q, b[0])
			if c.getMax(a[0]) != nil {
				c.setMax(r, new(big.Int).Sub(k, big.NewInt(1)))
			}
			return res(r)
		}
		// truncated division, built from SMT-LIB's floor/euclidean div on non-negative operands
		absA := c.I("(ite (>= %s 0) %s (- %s))", a[0], a[0], a[0])
		absB := c.I("(ite (>= %s 0) %s (- %s))", b[0], b[0], b[0])
		qa := c.I("(div %s %s)", absA, absB)
		q := c.I("(ite (= (>= %s 0) (>= %s 0)) %s (- %s))", a[0], b[0], qa, qa)
		if x.Op == token.QUO {
			return res(c.wrap(q, l))
		}
		return res(c.I("(- %s (* %s %s))", a[0], q, b[0]))
	case token.SHL, token.SHR:
		k, ok := constInt(x.Y)
		if !ok {
			return res(e.varShift(s, x, a[0], b[0], l))
		}
		if l.signed && c.raw == 0 && k.Sign() >= 0 && k.BitLen() < 16 && (x.Op == token.SHL || c.getMax(a[0]) != nil) {
			if t, ok := c.unsignedFast(x.Op.String(), c.toUnsigned(a[0], l), k.String(), l.bits); ok {
				return res(c.fromUnsigned(t, l))
			}
		}
		return res(e.constShift(x.Op, a[0], int(k.Int64()), l))
	case token.AND, token.AND_NOT, token.OR, token.XOR:
		if l.signed && c.raw == 0 {
			if t, ok := c.unsignedFast(x.Op.String(), c.toUnsigned(a[0], l), c.toUnsigned(b[0], l), l.bits); ok {
				return res(c.fromUnsigned(t, l))
			}
		}
		ua, ub := c.toUnsigned(a[0], l), c.toUnsigned(b[0], l)
		if l.signed {
			ka, oka := constInt(x.X)
			kb, okb := constInt(x.Y)
			if oka && ka.Sign() < 0 {
				ua = new(big.Int).Add(ka, pow2(l.bits)).String()
			}
			if okb && kb.Sign() < 0 {
				ub = new(big.Int).Add(kb, pow2(l.bits)).String()
			}
		}
		r := e.bitop(x.Op, ua, ub, l.bits)
		return res(c.fromUnsigned(r, l))
	}
	fail("%s: binop %s", e.name, x.Op)
	return nil
}

func (e *Exec) constShift(op token.Token, a string, sh int, l leaf) string {
	c := e.c
	if op == token.SHR {
		if sh >= l.bits {
			if l.signed {
				return c.I("(ite (< %s 0) (- 1) 0)", a)
			}
			return "0"
		}
		r := c.I("(div %s %s)", a, pow2(sh)) // floor division = arithmetic shift for signed
		if m := c.getMax(a); m != nil {
			c.setMax(r, new(big.Int).Rsh(m, uint(sh)))
		}
		return r
	}
	if sh >= l.bits {
		return "0"
	}
	r := c.I("(* %s %s)", a, pow2(sh))
	if m := c.getMax(a); m != nil && l.signed && new(big.Int).Lsh(m, uint(sh)).Cmp(pow2(l.bits-1)) < 0 {
		c.setMax(r, new(big.Int).Lsh(m, uint(sh)))
		c.lowz[r] = sh
		return r
	}
	if m := c.getMax(a); m != nil && new(big.Int).Lsh(m, uint(sh)).Cmp(pow2(l.bits)) < 0 && !l.signed {
		c.setMax(r, new(big.Int).Lsh(m, uint(sh)))
		c.lowz[r] = sh
		return r
	}
	w := c.wrap(r, l)
	c.lowz[w] = sh
	return w
}

func (e *Exec) varShift(s *State, x *ssa.BinOp, a, b string, l leaf) string {
	c := e.c
	// Go panics on negative signed shift counts
	if yl := leaves(x.Y.Type())[0]; yl.signed {
		c.oblige(e.obl("safety", "negshift", x), s.pc, c.B("(<= 0 %s)", b))
	}
	var r string
	if x.Op == token.SHR {
		if l.signed {
			r = c.I("(ite (< %s 0) (- 1) 0)", a)
		} else {
			r = "0"
		}
	} else {
		r = "0"
	}
	for k := l.bits - 1; k >= 0; k-- {
		r = c.ite("Int", c.B("(= %s %d)", b, k), e.constShift(x.Op, a, k, l), r)
	}
	if m := c.getMax(a); m != nil && x.Op == token.SHR {
		c.setMax(r, m)
	}
	return r
}

func (e *Exec) bitop(op token.Token, a, b string, bits int) string {
	c := e.c
	ka, oka := new(big.Int).SetString(a, 10)
	kb, okb := new(big.Int).SetString(b, 10)
	full := new(big.Int).Sub(pow2(bits), big.NewInt(1))
	switch op {
	case token.AND, token.AND_NOT:
		if okb || (oka && op == token.AND) {
			xv, k := a, kb
			if !okb {
				xv, k = b, ka
			}
			mask := new(big.Int).Set(k)
			if op == token.AND_NOT {
				mask = new(big.Int).AndNot(full, k)
			}
			r := c.andConst(xv, mask, bits)
			if mask.Sign() >= 0 {
				c.setMax(r, mask)
			}
			if tz := mask.TrailingZeroBits(); mask.Sign() > 0 && tz > 0 {
				c.lowz[r] = int(tz)
			}
			return r
		}
		// x & y with y having a small known maximum of the form 2^k-1: still general
		return c.bitwise(op, a, b, bits)
	case token.OR, token.XOR:
		ma, mb := c.getMax(a), c.getMax(b)
		za, zb := c.getLowz(a), c.getLowz(b)
		if a == "0" {
			return b
		}
		if b == "0" {
			return a
		}
		disjoint := (ma != nil && zb > 0 && ma.Cmp(pow2(zb)) < 0) || (mb != nil && za > 0 && mb.Cmp(pow2(za)) < 0)
		if disjoint {
			r := c.I("(+ %s %s)", a, b)
			if ma != nil && mb != nil {
				c.setMax(r, new(big.Int).Add(ma, mb))
			}
			lz := za
			if zb < lz {
				lz = zb
			}
			if lz > 0 {
				c.lowz[r] = lz
			}
			return r
		}
		if op == token.OR && (okb || oka) {
			xv, k := a, kb
			if !okb {
				xv, k = b, ka
			}
			nm := new(big.Int).AndNot(full, k)
			return c.I("(+ %s %s)", c.andConst(xv, nm, bits), k)
		}
		w := bits
		if ma != nil && mb != nil {
			m := ma
			if mb.Cmp(m) > 0 {
				m = mb
			}
			if m.BitLen() < w {
				w = m.BitLen()
			}
		}
		// one narrow operand (k bits) and one wide one: only the low k bits of the
		// wide operand take part; the rest is carried over unchanged
		if (ma == nil) != (mb == nil) && c.raw == 0 {
			wide, narrow, mn := a, b, mb
			if ma != nil {
				wide, narrow, mn = b, a, ma
			}
			if k := mn.BitLen(); k > 0 && k < bits {
				rw := c.repOf(wide, bits)
				lo := c.termOf(c.sliceBits(rw, 0, k))
				hi := c.termOf(append(zeros(k), c.sliceBits(rw, k, bits)...))
				low := c.bitwise(op, lo, narrow, k)
				c.setMax(low, new(big.Int).Sub(pow2(k), big.NewInt(1)))
				return c.I("(+ %s %s)", hi, low)
			}
		}
		r := c.bitwise(op, a, b, w)
		if ma != nil && mb != nil {
			c.setMax(r, new(big.Int).Sub(pow2(w), big.NewInt(1)))
		}
		return r
	}
	fail("bitop")
	return ""
}

func (e *Exec) convert(s *State, x *ssa.Convert) Val {
	c := e.c
	from, to := leaves(x.X.Type()), leaves(x.Type())
	v := e.val(s, x.X)
	if len(from) == 1 && len(to) == 1 && from[0].kind != "ref" && to[0].kind != "ref" && from[0].kind != "flt" && to[0].kind != "flt" {
		f, t := from[0], to[0]
		fits := (f.signed == t.signed && f.bits <= t.bits) || (!f.signed && t.signed && f.bits < t.bits)
		if fits {
			return v
		}
		if !f.signed && !t.signed && c.raw == 0 {
			return Val{c.termOf(c.fit(c.sliceBits(c.repOf(v[0], f.bits), 0, t.bits), t.bits))}
		}
		return Val{c.wrap(v[0], t)}
	}
	out := make(Val, len(to))
	for i := range out {
		out[i] = c.fresh("Int", "conv")
	}
	e.assumeTyped(s, out, x.Type())
	return out
}

func (e *Exec) slice(s *State, x *ssa.Slice) {
	c := e.c
	var obj, off, ln, cp string
	var stride int
	switch xt := x.X.Type().Underlying().(type) {
	case *types.Slice:
		v := e.val(s, x.X)
		obj, off, ln, cp = v[0], v[1], v[2], v[3]
		stride = cells(xt.Elem())
	case *types.Pointer:
		arr := xt.Elem().Underlying().(*types.Array)
		p := e.val(s, x.X)
		e.nilCheck(s, x, p[0])
		obj, off = p[0], p[1]
		ln = fmt.Sprint(arr.Len())
		cp = ln
		stride = cells(arr.Elem())
	case *types.Basic: // string slicing: opaque
		v := e.val(s, x.X)
		s.regs[x] = Val{v[0], c.fresh("Int", "strlen")}
		return
	default:
		fail("slice of %s", x.X.Type())
	}
	lo, hi, mx := "0", ln, cp
	if x.Low != nil {
		lo = e.val(s, x.Low)[0]
	}
	if x.High != nil {
		hi = e.val(s, x.High)[0]
	}
	if x.Max != nil {
		mx = e.val(s, x.Max)[0]
	}
	c.oblige(e.obl("safety", "slice", x), s.pc, c.B("(and (<= 0 %s) (<= %s %s) (<= %s %s) (<= %s %s))", lo, lo, hi, hi, mx, mx, cp))
	noff := c.add(off, c.mulK(lo, stride))
	// a nil slice stays nil (offset 0)
	s.regs[x] = Val{obj, c.ite("Int", c.B("(= %s 0)", obj), "0", noff), c.I("(- %s %s)", hi, lo), c.I("(- %s %s)", mx, lo)}
}

func (e *Exec) pin(t string) string {
	c := e.c
	if _, err := fmt.Sscanf(t, "%d", new(int)); err == nil {
		return t
	}
	k := c.fresh("Int", "pin")
	c.emit(fmt.Sprintf("(assert (= %s %s))", k, t), false)
	return k
}

// copyRange copies ncells cells from (sobj,sbase) of the pre-state to (dobj,dbase): overlap-correct.
func (e *Exec) copyRange(s *State, elemT types.Type, dobj, dbase, sobj, sbase, ncells string) {
	c := e.c
	if ncells == "0" {
		return
	}
	dobj = e.pin(dobj)
	sobj = e.pin(sobj)
	dbase = e.pin(dbase)
	sbase = e.pin(sbase)
	ncells = e.pin(ncells)
	seen := map[string]bool{}
	for _, l := range leaves(elemT) {
		if seen[l.kind] {
			continue
		}
		seen[l.kind] = true
		old := s.heaps[l.kind]
		oldp := c.fresh("HP", "Hpre"+l.kind)
		c.emit(fmt.Sprintf("(assert (= %s %s))", oldp, old), true)
		nh := c.fresh("HP", "H"+l.kind)
		c.emit(fmt.Sprintf("(assert (forall ((o Int)) (! (=> (not (= o %s)) (= (select %s o) (select %s o))) :pattern ((select %s o)))))", dobj, nh, oldp, nh), true)
		c.emit(fmt.Sprintf("(assert (forall ((x Int)) (! (= (select (select %s %s) x) (ite (and (<= %s x) (< x (+ %s %s))) (select (select %s %s) (+ %s (- x %s))) (select (select %s %s) x))) :pattern ((select (select %s %s) x)))))",
			nh, dobj, dbase, dbase, ncells, oldp, sobj, sbase, dbase, oldp, dobj, nh, dobj), true)
		s.heaps[l.kind] = nh
	}
}

func isString(t types.Type) bool {
	b, ok := t.Underlying().(*types.Basic)
	return ok && b.Info()&types.IsString != 0
}

// ---- CFG helpers ----

func rpo(fn *ssa.Function) []*ssa.BasicBlock {
	seen := map[*ssa.BasicBlock]bool{}
	var post []*ssa.BasicBlock
	var dfs func(b *ssa.BasicBlock)
	dfs = func(b *ssa.BasicBlock) {
		seen[b] = true
		for _, s := range b.Succs {
			if !seen[s] && !s.Dominates(b) {
				dfs(s)
			}
		}
		post = append(post, b)
	}
	dfs(fn.Blocks[0])
	for i, j := 0, len(post)-1; i < j; i, j = i+1, j-1 {
		post[i], post[j] = post[j], post[i]
	}
	return post
}

func isLoopHeader(b *ssa.BasicBlock) bool {
	for _, p := range b.Preds {
		if b.Dominates(p) {
			return true
		}
	}
	return false
}

func naturalLoop(h *ssa.BasicBlock) map[*ssa.BasicBlock]bool {
	body := map[*ssa.BasicBlock]bool{h: true}
	var stack []*ssa.BasicBlock
	for _, p := range h.Preds {
		if h.Dominates(p) {
			stack = append(stack, p)
		}
	}
	for len(stack) > 0 {
		b := stack[len(stack)-1]
		stack = stack[:len(stack)-1]
		if body[b] {
			continue
		}
		body[b] = true
		stack = append(stack, b.Preds...)
	}
	return body
}

// loopOrdinals numbers the loops of fn in source order.
func loopOrdinals(fn *ssa.Function) map[*ssa.BasicBlock]int {
	type hp struct {
		b   *ssa.BasicBlock
		pos token.Pos
	}
	var hs []hp
	for _, b := range fn.Blocks {
		if !isLoopHeader(b) {
			continue
		}
		min := token.Pos(1 << 40)
		for blk := range naturalLoop(b) {
			for _, in := range blk.Instrs {
				if p := in.Pos(); p.IsValid() && p < min {
					min = p
				}
			}
		}
		hs = append(hs, hp{b, min})
	}
	sort.Slice(hs, func(i, j int) bool {
		if hs[i].pos != hs[j].pos {
			return hs[i].pos < hs[j].pos
		}
		return hs[i].b.Index < hs[j].b.Index
	})
	out := map[*ssa.BasicBlock]int{}
	for i, h := range hs {
		out[h.b] = i
	}
	return out
}

// what a loop (or a callee) may modify
type modSet struct {
	vars   map[*ssa.Alloc]bool
	kinds  map[string]bool
	allocs bool
}

func (e *Exec) modifiedIn(body map[*ssa.BasicBlock]bool) *modSet {
	m := &modSet{vars: map[*ssa.Alloc]bool{}, kinds: map[string]bool{}}
	visited := map[*ssa.Function]bool{}
	var scanFn func(fn *ssa.Function)
	addKinds := func(t types.Type) {
		for _, l := range leaves(t) {
			m.kinds[l.kind] = true
		}
	}
	var scanInstr func(in ssa.Instruction, top bool)
	scanInstr = func(in ssa.Instruction, top bool) {
		switch x := in.(type) {
		case *ssa.Store:
			if a, ok := x.Addr.(*ssa.Alloc); ok && isScalarLocal(a) {
				if top {
					m.vars[a] = true
				}
			} else {
				addKinds(x.Val.Type())
			}
		case *ssa.Alloc:
			if !isScalarLocal(x) {
				m.allocs = true
				addKinds(x.Type().(*types.Pointer).Elem())
			} else if top {
				m.vars[x] = true
			}
		case *ssa.MakeSlice:
			m.allocs = true
			addKinds(x.Type().Underlying().(*types.Slice).Elem())
		case *ssa.MakeInterface, *ssa.MakeClosure:
		case *ssa.Call, *ssa.Defer:
			var cc *ssa.CallCommon
			if c, ok := x.(*ssa.Call); ok {
				cc = c.Common()
			} else {
				cc = &x.(*ssa.Defer).Call
			}
			if b, ok := cc.Value.(*ssa.Builtin); ok {
				if b.Name() == "append" || b.Name() == "copy" {
					if b.Name() == "append" {
						m.allocs = true
					}
					addKinds(cc.Args[0].Type().Underlying().(*types.Slice).Elem())
				}
				return
			}
			cal := cc.StaticCallee()
			if cal == nil {
				// dynamic call: closure or interface; conservatively everything
				if e.root.spec == nil || true {
					for _, k := range heapKinds {
						m.kinds[k] = true
					}
					m.allocs = true
				}
				return
			}
			if sp := e.p.specFor(cal); sp != nil && (!sp.Inline || sp.Trusted) {
				if sp.Pure {
					return
				}
				if !sp.NoAlloc {
					m.allocs = true
				}
				if sp.HasMod && len(sp.Modifies) == 0 && sp.NoAlloc {
					return
				}
				// conservative: all kinds (fresh objects may be of any kind)
				for _, k := range heapKinds {
					m.kinds[k] = true
				}
				return
			}
			switch cal.String() {
			case "fmt.Errorf", "errors.New", "fmt.Sprintf":
				return
			}
			if cal.Blocks != nil {
				scanFn(cal)
			}
		}
	}
	scanFn = func(fn *ssa.Function) {
		if visited[fn] {
			return
		}
		visited[fn] = true
		for _, b := range fn.Blocks {
			for _, in := range b.Instrs {
				scanInstr(in, false)
			}
		}
		for _, an := range fn.AnonFuncs {
			scanFn(an)
		}
	}
	for b := range body {
		for _, in := range b.Instrs {
			scanInstr(in, true)
		}
	}
	return m
}

// havocHeaps replaces the heaps of the given kinds by fresh ones, keeping
// (by the frame obligations checked on every write) all cells of objects older
// than the root's entry that are outside the root's modifies clause.
func (e *Exec) havocHeaps(s *State, kinds map[string]bool, allocs bool, narrowed []frameLoc, useNarrowed bool) {
	c := e.c
	r := e.root
	frame := r.frame
	Apre := s.A
	if allocs {
		Aold := s.A
		s.A = c.fresh("Int", "hvA")
		c.assume("true", c.B("(<= %s %s)", Aold, s.A))
	}
	var ks []string
	pre := map[string]string{}
	for k := range kinds {
		ks = append(ks, k)
		pre[k] = s.heaps[k]
	}
	sort.Strings(ks)
	if useNarrowed {
		defer e.keepCells(s, kinds, pre, narrowed)
	}
	for _, k := range ks {
		nh := c.fresh("HP", "hvH"+k)
		hpre := s.heaps[k]
		s.heaps[k] = nh
		if ni := e.lastNarrow; ni != nil {
			// every object that exists at loop entry - old or allocated by this function -
			// whose tag excludes it as a target of the loop's element writes keeps all
			// cells but the named ones
			var tg, inf []string
			for _, t := range ni.exclTags {
				tg = append(tg, fmt.Sprintf("(not (= (tag o) %d))", t))
			}
			for _, k := range ni.known {
				inf = append(inf, fmt.Sprintf("(and (= o %s) (<= %s x) (< x %s))", k.obj, k.lo, k.hi))
			}
			c.emit(fmt.Sprintf("(assert (forall ((o Int) (x Int)) (! (=> (and (< 0 o) (< o %s) %s (not (or %s false))) (= (select (select %s o) x) (select (select %s o) x))) :pattern ((select (select %s o) x)))))",
				Apre, strings.Join(tg, " "), strings.Join(inf, " "), nh, hpre, nh), true)
		}
		if r.frameAll {
			continue
		}
		if useNarrowed {
			// the region being havocked can write only these cells of old objects:
			// every other cell of an old object keeps the value it had just before
			var inf []string
			for _, f := range narrowed {
				inf = append(inf, fmt.Sprintf("(and (= o %s) (<= %s x) (< x %s))", f.obj, f.lo, f.hi))
			}
			c.emit(fmt.Sprintf("(assert (forall ((o Int) (x Int)) (! (=> (and (< o %s) (not (or %s false))) (= (select (select %s o) x) (select (select %s o) x))) :pattern ((select (select %s o) x)))))",
				r.A0, strings.Join(inf, " "), nh, hpre, nh), true)
		}
		h0 := r.H0[k]
		if len(frame) == 0 {
			c.emit(fmt.Sprintf("(assert (forall ((o Int)) (! (=> (< o %s) (= (select %s o) (select %s o))) :pattern ((select %s o)))))", r.A0, nh, h0, nh), true)
		} else {
			var inf []string
			for _, f := range frame {
				inf = append(inf, fmt.Sprintf("(and (= o %s) (<= %s x) (< x %s))", f.obj, f.lo, f.hi))
			}
			c.emit(fmt.Sprintf("(assert (forall ((o Int) (x Int)) (! (=> (and (< o %s) (not (or %s false))) (= (select (select %s o) x) (select (select %s o) x))) :pattern ((select (select %s o) x)))))",
				r.A0, strings.Join(inf, " "), nh, h0, nh), true)
		}
	}
}

// keepCells: after a narrowed havoc, the cells of the root's struct regions that
// the havocked code provably does not write are written back with the values
// they had before - the same fact as the quantified axiom emitted above, but as
// a store chain, so that later loads resolve syntactically.
func (e *Exec) keepCells(s *State, kinds map[string]bool, pre map[string]string, narrowed []frameLoc) {
	c := e.c
	for _, f := range e.root.frame {
		if f.typ == nil {
			continue
		}
		if _, ok := f.typ.Underlying().(*types.Struct); !ok {
			continue
		}
		ls := leaves(f.typ)
		if c.cmpAddr(f.hi, c.add(f.lo, fmt.Sprint(len(ls)))) != 1 {
			continue
		}
		for i, l := range ls {
			if !kinds[l.kind] {
				continue
			}
			addr := c.add(f.lo, fmt.Sprint(i))
			ab, ao := c.baseOff(addr)
			written := false
			for _, n := range narrowed {
				if c.cmpAddr(n.obj, f.obj) == -1 {
					continue
				}
				if c.cmpAddr(n.obj, f.obj) == 0 {
					written = true
					break
				}
				lb, lo := c.baseOff(n.lo)
				hb, hi := c.baseOff(n.hi)
				if lb != ab || hb != ab {
					written = true
					break
				}
				if lo.Cmp(ao) <= 0 && ao.Cmp(hi) < 0 {
					written = true
					break
				}
			}
			if written {
				continue
			}
			v, ok := c.readHeap(pre[l.kind], f.obj, addr)
			if !ok {
				v = c.I("(select (select %s %s) %s)", pre[l.kind], f.obj, addr)
			}
			h := s.heaps[l.kind]
			s.heaps[l.kind] = c.H("(store %s %s (store (select %s %s) %s %s))", h, f.obj, h, f.obj, addr, v)
		}
	}
}

// instantiateAt: the one-variable quantified hypotheses that talk about object
// obj are instantiated at the index the code is about to read (an instance of a
// universally quantified hypothesis is implied by it: always sound). E-matching
// cannot find these instances when the index is an arithmetic term.
func (e *Exec) instantiateAt(s *State, obj, idx string) {
	c := e.c
	if _, lit := isLit(obj); lit {
		return
	}
	for _, name := range c.qorder {
		qi := c.quants[name]
		if len(qi.src) != 1 || qi.at > len(c.lines) || !strings.Contains(qi.body, obj) {
			continue
		}
		key := name + "|" + idx
		if e.root.instDone[key] {
			continue
		}
		if e.root.instDone == nil {
			e.root.instDone = map[string]bool{}
		}
		e.root.instDone[key] = true
		c.emit(fmt.Sprintf("(assert (=> %s %s))", name, strings.ReplaceAll(qi.body, qi.smt[0], idx)), false)
	}
}

// privateAlloc: a heap-allocated local whose address never escapes: it is only
// used through FieldAddr/IndexAddr chains ending in loads and stores. Returns
// the set of address values derived from it (nil if it escapes).
func privateAlloc(a *ssa.Alloc) map[ssa.Value]bool {
	derived := map[ssa.Value]bool{a: true}
	work := []ssa.Value{a}
	for len(work) > 0 {
		v := work[len(work)-1]
		work = work[:len(work)-1]
		refs := v.Referrers()
		if refs == nil {
			return nil
		}
		for _, r := range *refs {
			switch x := r.(type) {
			case *ssa.FieldAddr:
				if x.X != v {
					return nil
				}
				if !derived[x] {
					derived[x] = true
					work = append(work, x)
				}
			case *ssa.IndexAddr:
				if x.X != v {
					return nil
				}
				if !derived[x] {
					derived[x] = true
					work = append(work, x)
				}
			case *ssa.UnOp:
				if x.Op != token.MUL {
					return nil
				}
			case *ssa.Store:
				if x.Val == v {
					return nil // the address itself is stored somewhere
				}
			case *ssa.DebugRef:
			default:
				return nil
			}
		}
	}
	return derived
}

// unwrittenPrivate: private allocs, live on this path, that no instruction of the loop body writes.
func (e *Exec) unwrittenPrivate(s *State, body map[*ssa.BasicBlock]bool) []*ssa.Alloc {
	var out []*ssa.Alloc
	for v, r := range s.regs {
		a, ok := v.(*ssa.Alloc)
		if !ok || r == nil || isScalarLocal(a) || a.Parent() != e.fn {
			continue
		}
		if body[a.Block()] {
			continue
		}
		derived := privateAlloc(a)
		if derived == nil {
			continue
		}
		written := false
		for b := range body {
			for _, in := range b.Instrs {
				if st, ok := in.(*ssa.Store); ok && derived[st.Addr] {
					written = true
				}
			}
		}
		if !written {
			out = append(out, a)
		}
	}
	sort.Slice(out, func(i, j int) bool { return out[i].Pos() < out[j].Pos() })
	return out
}
