// SPDX-FileCopyrightText: 2023 The Pion community <https://pion.ly>
// SPDX-License-Identifier: MIT

//go:build verif

// Contracts (machine-checked by /verif/engine) for package rtp. This file is
// only compiled with the build tag "verif": it contains specification comments
// (//@ lines) and ghost lemma functions that call the real code. Nothing here
// is part of the library.

package rtp

import "time"

// ===== C17: fixed-size header-extension payload codecs =====

// RFC 6464: one octet, V in the most significant bit, level in the low seven.
//@ spec (AudioLevelExtension).Marshal
//@   ensures range [C17]: (err != nil) <==> a.Level > 127
//@   ensures nobytes [C17]: err != nil ==> len(result0) == 0
//@   ensures layout [C17]: err == nil ==> len(result0) == 1 && fresh(result0) && int(result0[0]) == bv(a.Voice)*128 + int(a.Level)
//@ end
//@ spec (*AudioLevelExtension).Unmarshal
//@   modifies a.*
//@   ensures total [C17]: (err != nil) <==> len(rawData) < 1
//@   ensures short [C17]: len(rawData) < 1 ==> errIs(err, errTooSmall)
//@   ensures fields [C17]: err == nil ==> int(a.Level) == bits(rawData[0], 6, 0) && (a.Voice <==> bits(rawData[0], 7, 7) == 1)
//@ end

// transport-wide-cc-extensions-01: 16-bit sequence number, network order.
//@ spec (TransportCCExtension).Marshal
//@   ensures ok [C17]: err == nil
//@   ensures layout [C17]: len(result0) == 2 && fresh(result0) && be16(result0, 0) == int(t.TransportSequence)
//@ end
//@ spec (*TransportCCExtension).Unmarshal
//@   modifies t.*
//@   ensures total [C17]: (err != nil) <==> len(rawData) < 2
//@   ensures short [C17]: len(rawData) < 2 ==> errIs(err, errTooSmall)
//@   ensures fields [C17]: err == nil ==> int(t.TransportSequence) == be16(rawData, 0)
//@ end

// playout-delay: 12-bit MIN delay, 12-bit MAX delay, three octets.
//@ spec (PlayoutDelayExtension).Marshal
//@   ensures range [C17]: (err != nil) <==> (p.MinDelay > 4095 || p.MaxDelay > 4095)
//@   ensures nobytes [C17]: err != nil ==> len(result0) == 0
//@   ensures layout [C17]: err == nil ==> len(result0) == 3 && fresh(result0) && be24(result0, 0) == int(p.MinDelay)*4096 + int(p.MaxDelay)
//@ end
//@ spec (*PlayoutDelayExtension).Unmarshal
//@   modifies p.*
//@   ensures total [C17]: (err != nil) <==> len(rawData) < 3
//@   ensures short [C17]: len(rawData) < 3 ==> errIs(err, errTooSmall)
//@   ensures fields [C17]: err == nil ==> int(p.MinDelay) == be24(rawData, 0) / 4096 && int(p.MaxDelay) == be24(rawData, 0) % 4096
//@ end

// abs-send-time: 24-bit 6.18 fixed point, network order.
//@ spec (AbsSendTimeExtension).Marshal
//@   ensures ok [C17]: err == nil
//@   ensures layout [C17]: len(result0) == 3 && fresh(result0) && be24(result0, 0) == int(t.Timestamp) % 16777216
//@ end
//@ spec (*AbsSendTimeExtension).Unmarshal
//@   modifies t.*
//@   ensures total [C17]: (err != nil) <==> len(rawData) < 3
//@   ensures short [C17]: len(rawData) < 3 ==> errIs(err, errTooSmall)
//@   ensures fields [C17]: err == nil ==> int(t.Timestamp) == be24(rawData, 0)
//@ end

// abs-capture-time: 64-bit NTP timestamp, optionally followed by a 64-bit
// two's-complement estimated capture clock offset.
//@ spec (AbsCaptureTimeExtension).Marshal
//@   ensures ok [C17]: err == nil
//@   ensures short_form [C17]: t.EstimatedCaptureClockOffset == nil ==> len(result0) == 8 && fresh(result0) && be64(result0, 0) == int(t.Timestamp)
//@   ensures long_form [C17]: t.EstimatedCaptureClockOffset != nil ==> len(result0) == 16 && fresh(result0) && be64(result0, 0) == int(t.Timestamp) && be64(result0, 8) == uint64(int(*t.EstimatedCaptureClockOffset))
//@ end
//@ spec (*AbsCaptureTimeExtension).Unmarshal
//@   modifies t.*
//@   ensures total [C17]: (err != nil) <==> len(rawData) < 8
//@   ensures short [C17]: len(rawData) < 8 ==> errIs(err, errTooSmall)
//@   ensures timestamp [C17]: err == nil ==> int(t.Timestamp) == be64(rawData, 0)
//@   ensures offset_present [C17]: err == nil && len(rawData) >= 16 ==> t.EstimatedCaptureClockOffset != nil && fresh(t.EstimatedCaptureClockOffset) && int(*t.EstimatedCaptureClockOffset) == int64(be64(rawData, 8))
//@   ensures offset_absent [C17]: err == nil && len(rawData) < 16 ==> t.EstimatedCaptureClockOffset == nil
//@ end

// Round trips: Unmarshal after Marshal is the identity on every in-range value.
// The lemma bodies call the real functions; the verifier sees only their contracts.

//@ spec verifLemmaAudioLevelRoundTrip
//@   ensures roundtrip [C17]: a.Level <= 127 ==> err == nil && result0.Level == a.Level && result0.Voice == a.Voice
//@ end
func verifLemmaAudioLevelRoundTrip(a AudioLevelExtension, b AudioLevelExtension) (AudioLevelExtension, error) {
	buf, err := a.Marshal()
	if err != nil {
		return b, err
	}
	err = b.Unmarshal(buf)

	return b, err
}

//@ spec verifLemmaTransportCCRoundTrip
//@   ensures roundtrip [C17]: err == nil && result0.TransportSequence == a.TransportSequence
//@ end
func verifLemmaTransportCCRoundTrip(a TransportCCExtension, b TransportCCExtension) (TransportCCExtension, error) {
	buf, err := a.Marshal()
	if err != nil {
		return b, err
	}
	err = b.Unmarshal(buf)

	return b, err
}

//@ spec verifLemmaPlayoutDelayRoundTrip
//@   ensures roundtrip [C17]: a.MinDelay <= 4095 && a.MaxDelay <= 4095 ==> err == nil && result0.MinDelay == a.MinDelay && result0.MaxDelay == a.MaxDelay
//@ end
func verifLemmaPlayoutDelayRoundTrip(a PlayoutDelayExtension, b PlayoutDelayExtension) (PlayoutDelayExtension, error) {
	buf, err := a.Marshal()
	if err != nil {
		return b, err
	}
	err = b.Unmarshal(buf)

	return b, err
}

//@ spec verifLemmaAbsSendTimeRoundTrip
//@   ensures roundtrip [C17]: a.Timestamp < 16777216 ==> err == nil && result0.Timestamp == a.Timestamp
//@ end
func verifLemmaAbsSendTimeRoundTrip(a AbsSendTimeExtension, b AbsSendTimeExtension) (AbsSendTimeExtension, error) {
	buf, err := a.Marshal()
	if err != nil {
		return b, err
	}
	err = b.Unmarshal(buf)

	return b, err
}

//@ spec verifLemmaAbsCaptureTimeRoundTrip
//@   ensures roundtrip [C17]: err == nil && result0.Timestamp == a.Timestamp
//@   ensures offset_absent [C17]: a.EstimatedCaptureClockOffset == nil ==> result0.EstimatedCaptureClockOffset == nil
//@   ensures offset_present [C17]: a.EstimatedCaptureClockOffset != nil ==> result0.EstimatedCaptureClockOffset != nil && *result0.EstimatedCaptureClockOffset == *a.EstimatedCaptureClockOffset
//@ end
func verifLemmaAbsCaptureTimeRoundTrip(a AbsCaptureTimeExtension, b AbsCaptureTimeExtension) (AbsCaptureTimeExtension, error) {
	buf, err := a.Marshal()
	if err != nil {
		return b, err
	}
	err = b.Unmarshal(buf)

	return b, err
}

// ===== C18: NTP time mapping =====
//
// A time.Time is characterised by its UnixNano value (ghost function unixnano);
// the two time-package functions the code uses are trusted with exactly that
// meaning. 2208988800 s lie between the NTP epoch (1900) and the Unix epoch.

//@ ghost unixnano(t)
//@ trusted-spec (time.Time).UnixNano
//@   pure-effects
//@   ensures int(result0) == unixnano(t)
//@ end
//@ trusted-spec time.Unix
//@   pure-effects
//@   ensures -9223372036854775808 <= int(sec)*1000000000 + int(nsec) && int(sec)*1000000000 + int(nsec) <= 9223372036854775807 ==> unixnano(result0) == int(sec)*1000000000 + int(nsec)
//@ end

//@ pure ntpOf(u) = ((u / 1000000000 + 2208988800) % 4294967296) * 4294967296 + ((u % 1000000000) * 4294967296) / 1000000000
//@ pure nanosOf(n) = (n / 4294967296 - 2208988800) * 1000000000 + ((n % 4294967296) * 1000000000) / 4294967296
// The same two functions, opaque: callers reason about ntp(u) / nanos(n) as
// symbols; only the defining functions and the final lemmas reveal them.
//@ pure opaque ntp(u) = ntpOf(u)
//@ pure opaque nanos(n) = nanosOf(n)

// 32.32 fixed-point NTP timestamp of an instant at or after the Unix epoch.
//@ spec toNtpTime
//@   reveal ntp(unixnano(t))
//@   ensures def [C18]: 0 <= unixnano(t) ==> int(result0) == ntp(unixnano(t))
//@ end
// Instant of an NTP timestamp at or after the Unix epoch.
//@ spec toTime
//@   requires 2208988800 * 4294967296 <= int(t)
//@   reveal nanos(int(t))
//@   ensures def [C18]: unixnano(result0) == nanos(int(t))
//@ end

//@ spec NewAbsCaptureTimeExtension
//@   requires 0 <= unixnano(captureTime)
//@   ensures def [C18]: result0 != nil && fresh(result0) && int(result0.Timestamp) == ntp(unixnano(captureTime)) && result0.EstimatedCaptureClockOffset == nil
//@ end
//@ spec (AbsCaptureTimeExtension).CaptureTime
//@   requires 2208988800 * 4294967296 <= int(t.Timestamp)
//@   ensures def [C18]: unixnano(result0) == nanos(int(t.Timestamp))
//@ end

// 1970-01-01 .. end of NTP era 0 (2036-02-07): 0 <= unixnano < (2^32 - 2208988800) * 10^9
//@ spec verifLemmaCaptureTimeRoundTrip
//@   requires 0 <= unixnano(t) && unixnano(t) < (4294967296 - 2208988800) * 1000000000
//@   reveal ntp(unixnano(t))
//@   reveal nanos(ntp(unixnano(t)))
//@   ensures within_1ns [C18]: unixnano(t) - 1 <= unixnano(result0) && unixnano(result0) <= unixnano(t)
//@ end
func verifLemmaCaptureTimeRoundTrip(t time.Time) time.Time {
	return NewAbsCaptureTimeExtension(t).CaptureTime()
}

// 32.32 fixed point of a non-negative nanosecond count, and back.
//@ pure fixOf(n) = (n / 1000000000) * 4294967296 + ((n % 1000000000) * 4294967296) / 1000000000
//@ pure durOf(o) = (o / 4294967296) * 1000000000 + ((o % 4294967296) * 1000000000) / 4294967296
//@ spec NewAbsCaptureTimeExtensionWithCaptureClockOffset
//@   requires 0 <= unixnano(captureTime)
//@   requires -2147483648 * 1000000000 < int(captureClockOffset) && int(captureClockOffset) < 2147483648 * 1000000000
//@   ensures ts [C18]: result0 != nil && fresh(result0) && int(result0.Timestamp) == ntp(unixnano(captureTime))
//@   ensures off [C18]: result0.EstimatedCaptureClockOffset != nil && fresh(result0.EstimatedCaptureClockOffset) && int(*result0.EstimatedCaptureClockOffset) == ite(int(captureClockOffset) >= 0, fixOf(int(captureClockOffset)), 0 - fixOf(0 - int(captureClockOffset)))
//@ end
//@ spec (AbsCaptureTimeExtension).EstimatedCaptureClockOffsetDuration
//@   requires t.EstimatedCaptureClockOffset != nil ==> -9223372036854775808 < int(*t.EstimatedCaptureClockOffset)
//@   ensures none [C18]: t.EstimatedCaptureClockOffset == nil ==> result0 == nil
//@   ensures some [C18]: t.EstimatedCaptureClockOffset != nil ==> result0 != nil && int(*result0) == ite(int(*t.EstimatedCaptureClockOffset) >= 0, durOf(int(*t.EstimatedCaptureClockOffset)), 0 - durOf(0 - int(*t.EstimatedCaptureClockOffset)))
//@ end

// Capture clock offset: a duration of magnitude below 2^31 s comes back within 1 ns, sign included.
//@ spec verifLemmaClockOffsetRoundTrip
//@   requires 0 <= unixnano(t)
//@   requires -2147483648 * 1000000000 < int(d) && int(d) < 2147483648 * 1000000000
//@   ensures within_1ns [C18]: result0 != nil && int(d) - 1 <= int(*result0) && int(*result0) <= int(d) + 1
//@   ensures sign [C18]: result0 != nil && (int(d) >= 2 ==> int(*result0) > 0) && (int(d) <= -2 ==> int(*result0) < 0)
//@ end
func verifLemmaClockOffsetRoundTrip(t time.Time, d time.Duration) *time.Duration {
	return NewAbsCaptureTimeExtensionWithCaptureClockOffset(t, d).EstimatedCaptureClockOffsetDuration()
}

// abs-send-time: 24 bits of 6.18 fixed point; the estimate recovers the send
// instant to within the 2^-18 s (3814.7 ns) resolution of the field plus the
// 1 ns of the NTP conversion, across 64 s wraps.
//@ spec NewAbsSendTimeExtension
//@   ensures owned [C18,C06]: result0 != nil && fresh(result0)
//@   ensures def [C18]: 0 <= unixnano(sendTime) ==> int(result0.Timestamp) == ntp(unixnano(sendTime)) / 16384
//@ end
// Estimate splices the 24-bit field into the receive time's NTP value (bits
// 14..37) and steps back one 64 s period when that lands after the receive time.
//@ pure spliced(r, ts) = (r / 274877906944) * 274877906944 + (ts % 16777216) * 16384
//@ pure estimated(r, ts) = ite(r < spliced(r, ts), spliced(r, ts) - 274877906944, spliced(r, ts))
//@ spec (*AbsSendTimeExtension).Estimate
//@   requires 0 <= unixnano(receive)
//@   requires 2208988800 * 4294967296 <= estimated(ntp(unixnano(receive)), int(t.Timestamp))
//@   ensures def [C18]: unixnano(result0) == nanos(estimated(ntp(unixnano(receive)), int(t.Timestamp)))
//@ end
//@ spec verifLemmaEstimate
//@   requires 0 <= unixnano(send) && unixnano(send) <= unixnano(receive) && unixnano(receive) < (4294967296 - 2208988800) * 1000000000
//@   requires unixnano(receive) - unixnano(send) < 64 * 1000000000 - 3815
//@   reveal ntp(unixnano(send))
//@   reveal ntp(unixnano(receive))
//@   reveal nanos(estimated(ntp(unixnano(receive)), ntp(unixnano(send)) / 16384))
//@   ensures within_resolution [C18]: unixnano(send) - 3816 <= unixnano(result0) && unixnano(result0) <= unixnano(send)
//@ end
func verifLemmaEstimate(send, receive time.Time) time.Time {
	return NewAbsSendTimeExtension(send).Estimate(receive)
}

// ===== C07: sequencer =====
//
// What contracts decide: the sequential specification of the counter (ghost
// total T = rollOverCount*65536 + sequenceNumber advances by exactly one per
// call, the value returned is T mod 2^16) and the lock discipline (the two
// fields are only touched while the mutex is held; ghost: Mutex.state == 1).
// Linearizability over all schedules then follows from mutual exclusion, which
// rests on the trusted sync.Mutex contract below, not on a checked obligation.

//@ guarded sequencer.sequenceNumber by mutex [C07]
//@ guarded sequencer.rollOverCount by mutex [C07]
//@ trusted-spec (*sync.Mutex).Lock
//@   noalloc
//@   modifies m.*
//@   ensures m.state == 1
//@ end
//@ trusted-spec (*sync.Mutex).Unlock
//@   noalloc
//@   requires held: m.state == 1
//@   modifies m.*
//@   ensures m.state == 0
//@ end
//@ trusted-spec (github.com/pion/randutil.MathRandomGenerator).Intn
//@   pure-effects
//@   requires n > 0
//@   ensures 0 <= int(result0) && int(result0) < int(n)
//@ end

//@ spec (*sequencer).NextSequenceNumber
//@   requires s.rollOverCount < 18446744073709551615
//@   modifies s.*
//@   ensures step [C07]: int(s.rollOverCount)*65536 + int(s.sequenceNumber) == old(int(s.rollOverCount)*65536 + int(s.sequenceNumber)) + 1
//@   ensures ret [C07]: result0 == s.sequenceNumber
//@   ensures released [C07]: s.mutex.state == 0
//@ end
//@ spec (*sequencer).RollOverCount
//@   modifies s.*
//@   ensures ret [C07]: result0 == old(s.rollOverCount)
//@   ensures unchanged [C07]: s.rollOverCount == old(s.rollOverCount) && s.sequenceNumber == old(s.sequenceNumber)
//@   ensures released [C07]: s.mutex.state == 0
//@ end

// A fixed sequencer's first value is its start value; rollover count starts at
// 0 (1 if the start value itself is 0, which counts as a handed-out 0).
//@ spec verifLemmaFixedSequencerFirst
//@   ensures first [C07]: result0 == s
//@   ensures roc [C07]: int(result1) == ite(s == 0, 1, 0)
//@ end
func verifLemmaFixedSequencerFirst(s uint16) (uint16, uint64) {
	seq := NewFixedSequencer(s)
	v := seq.NextSequenceNumber()

	return v, seq.RollOverCount()
}

// A random sequencer starts below 2^15.
//@ spec verifLemmaRandomSequencerFirst
//@   ensures below_half [C07]: result0 < 32768
//@ end
func verifLemmaRandomSequencerFirst() uint16 {
	return NewRandomSequencer().NextSequenceNumber()
}

// Two consecutive values differ by one modulo 2^16 and the extended counter grows.
//@ spec verifLemmaSequencerConsecutive
//@   requires s.rollOverCount < 18446744073709551614
//@   modifies s.*
//@   ensures consecutive [C07]: int(result1) == (int(result0) + 1) % 65536
//@   ensures wrap [C07]: result0 == 65535 ==> result1 == 0
//@   ensures roc_counts_zeros [C07]: int(s.rollOverCount) == old(int(s.rollOverCount)) + bv(result0 == 0) + bv(result1 == 0)
//@ end
func verifLemmaSequencerConsecutive(s *sequencer) (uint16, uint16) {
	a := s.NextSequenceNumber()
	b := s.NextSequenceNumber()

	return a, b
}

// ===== C20: Clone =====
//
// cloneOfExt(c, h, k): element k of the clone's extension list has the same id
// and a freshly allocated value of the same length (its bytes: the *_bytes clauses).
//@ pure bool cloneOfExt(c, h, k) = c[k].id == h[k].id && len(c[k].payload) == len(h[k].payload) && (h[k].payload == nil ==> c[k].payload == nil) && (h[k].payload != nil ==> c[k].payload != nil && fresh(c[k].payload))

//@ spec (Header).Clone
//@   ensures scalars [C20]: samescalars(result0, h)
//@   ensures csrc [C20]: len(result0.CSRC) == len(h.CSRC) && (h.CSRC == nil ==> result0.CSRC == nil) && (h.CSRC != nil ==> result0.CSRC != nil && fresh(result0.CSRC)) && eqseq(result0.CSRC, 0, h.CSRC, 0, len(h.CSRC))
//@   ensures exts [C20]: len(result0.Extensions) == len(h.Extensions) && (h.Extensions == nil ==> result0.Extensions == nil) && (h.Extensions != nil ==> result0.Extensions != nil && fresh(result0.Extensions))
//@   ensures ext_elems [C20]: forall k :: 0 <= k && k < len(h.Extensions) ==> cloneOfExt(result0.Extensions, h.Extensions, k)
//@   ensures ext_bytes [C20]: forall k, q :: 0 <= k && k < len(h.Extensions) && 0 <= q && q < len(h.Extensions[k].payload) ==> result0.Extensions[k].payload[q] == h.Extensions[k].payload[q]
//@   loop 0: invariant shape [C20]: ext != nil && fresh(ext) && off(ext) == 0 && len(ext) == len(h.Extensions) && rangeindex <= len(h.Extensions) - 1
//@   loop 0: invariant done [C20]: forall k :: 0 <= k && k <= rangeindex ==> cloneOfExt(ext, h.Extensions, k)
//@   loop 0: invariant done_bytes [C20]: forall k, q :: 0 <= k && k <= rangeindex && 0 <= q && q < len(h.Extensions[k].payload) ==> ext[k].payload[q] == h.Extensions[k].payload[q]
//@   loop 0: invariant clone_csrc [C20]: len(clone.CSRC) == len(h.CSRC) && (h.CSRC == nil ==> clone.CSRC == nil) && (h.CSRC != nil ==> clone.CSRC != nil && fresh(clone.CSRC)) && eqseq(clone.CSRC, 0, h.CSRC, 0, len(h.CSRC)) && samescalars(clone, h)
//@ end

//@ spec (Packet).Clone
//@   ensures nonnil [C20]: result0 != nil && fresh(result0)
//@   ensures scalars [C20]: samescalars(result0.Header, p.Header) && result0.PaddingSize == p.PaddingSize
//@   ensures csrc [C20]: len(result0.Header.CSRC) == len(p.Header.CSRC) && (p.Header.CSRC != nil ==> fresh(result0.Header.CSRC)) && eqseq(result0.Header.CSRC, 0, p.Header.CSRC, 0, len(p.Header.CSRC))
//@   ensures exts [C20]: len(result0.Header.Extensions) == len(p.Header.Extensions) && (p.Header.Extensions != nil ==> fresh(result0.Header.Extensions))
//@   ensures ext_elems [C20]: forall k :: 0 <= k && k < len(p.Header.Extensions) ==> cloneOfExt(result0.Header.Extensions, p.Header.Extensions, k)
//@   ensures ext_bytes [C20]: forall k, q :: 0 <= k && k < len(p.Header.Extensions) && 0 <= q && q < len(p.Header.Extensions[k].payload) ==> result0.Header.Extensions[k].payload[q] == p.Header.Extensions[k].payload[q]
//@   ensures payload [C20]: len(result0.Payload) == len(p.Payload) && (p.Payload == nil ==> result0.Payload == nil) && (p.Payload != nil ==> result0.Payload != nil && fresh(result0.Payload)) && eqseq(result0.Payload, 0, p.Payload, 0, len(p.Payload))
//@ end

// ===== C02: RTP parsing is memory-safe and bounded on arbitrary input =====
//
// requires nothing: any byte string, any receiver state of the right type
// (a used Header whose CSRC/Extensions slices alias anything type-correct).

// extsWithin(exts, m, buf, n): the first m extension values are sub-slices of buf[:n].
//@ pure bool extsWithin(exts, m, buf, n) = forall k :: 0 <= k && k < m ==> sameobj(exts[k].payload, buf) && off(buf) <= off(exts[k].payload) && off(exts[k].payload) + len(exts[k].payload) <= off(buf) + n && len(exts[k].payload) >= 0

//@ spec (*Header).Unmarshal
//@   modifies h.*, h.CSRC[*cap], h.Extensions[*cap]
//@   ensures hdrlen_in_input [C02]: err == nil ==> 12 <= n && n <= len(buf)
//@   ensures fixed_fields [C02,C03]: err == nil ==> int(h.Version) == bits(buf[0], 7, 6) && (h.Padding <==> bits(buf[0], 5, 5) == 1) && (h.Extension <==> bits(buf[0], 4, 4) == 1) && (h.Marker <==> bits(buf[1], 7, 7) == 1) && int(h.PayloadType) == bits(buf[1], 6, 0) && int(h.SequenceNumber) == be16(buf, 2) && int(h.Timestamp) == be32(buf, 4) && int(h.SSRC) == be32(buf, 8)
//@   ensures csrc [C02,C03]: err == nil ==> len(h.CSRC) == bits(buf[0], 3, 0) && (forall i :: 0 <= i && i < len(h.CSRC) ==> int(h.CSRC[i]) == be32(buf, 12 + 4*i))
//@   ensures no_ext [C02,C03]: err == nil && bits(buf[0], 4, 4) == 0 ==> len(h.Extensions) == 0 && n == 12 + 4*bits(buf[0], 3, 0)
//@   ensures no_ext_profile [C02]: err == nil && bits(buf[0], 4, 4) == 0 ==> h.ExtensionProfile == 0
//@   ensures ext_profile [C02,C03]: err == nil && bits(buf[0], 4, 4) == 1 ==> int(h.ExtensionProfile) == be16(buf, 12 + 4*bits(buf[0], 3, 0)) && n >= 16 + 4*bits(buf[0], 3, 0)
//@   ensures ext_values_are_input [C02]: err == nil ==> extsWithin(h.Extensions, len(h.Extensions), buf, n)
//@   ensures ext_block_skipped [C02,C03]: err == nil && bits(buf[0], 4, 4) == 1 ==> n >= 16 + 4*bits(buf[0], 3, 0) + 4*be16(buf, 14 + 4*bits(buf[0], 3, 0))
//@   ensures ext_block_skipped_unless_reserved [C02,C03]: err == nil && bits(buf[0], 4, 4) == 1 && n < 16 + 4*bits(buf[0], 3, 0) + 4*be16(buf, 14 + 4*bits(buf[0], 3, 0)) ==> be16(buf, 12 + 4*bits(buf[0], 3, 0)) == 48862 && bits(buf[n - 1], 7, 4) == 15
//@   loop 0: invariant filled [C02,C03]: len(h.CSRC) == bits(buf[0], 3, 0) && rangeindex <= len(h.CSRC) - 1 && (forall i :: 0 <= i && i <= rangeindex ==> int(h.CSRC[i]) == be32(buf, 12 + 4*i))
//@   loop 0: invariant stable [C02,C03]: n == 12 + 4*bits(buf[0], 3, 0) && n <= len(buf) && int(h.Version) == bits(buf[0], 7, 6) && (h.Padding <==> bits(buf[0], 5, 5) == 1) && (h.Extension <==> bits(buf[0], 4, 4) == 1) && (h.Marker <==> bits(buf[1], 7, 7) == 1) && int(h.PayloadType) == bits(buf[1], 6, 0) && int(h.SequenceNumber) == be16(buf, 2) && int(h.Timestamp) == be32(buf, 4) && int(h.SSRC) == be32(buf, 8)
//@   loop 1: invariant bounds [C02]: 16 + 4*bits(buf[0], 3, 0) <= n && n <= len(buf) && extensionEnd <= len(buf) && extensionEnd == 16 + 4*bits(buf[0], 3, 0) + 4*be16(buf, 14 + 4*bits(buf[0], 3, 0))
//@   loop 1: invariant ext_backing [C02]: fresh(h.Extensions) || (sameobj(h.Extensions, old(h.Extensions)) && off(h.Extensions) == off(old(h.Extensions)) && cap(h.Extensions) == cap(old(h.Extensions)))
//@   loop 1: invariant exts [C02]: extsWithin(h.Extensions, len(h.Extensions), buf, n)
//@   loop 1: invariant stable [C02,C03]: len(h.CSRC) == bits(buf[0], 3, 0) && (forall i :: 0 <= i && i < len(h.CSRC) ==> int(h.CSRC[i]) == be32(buf, 12 + 4*i)) && int(h.Version) == bits(buf[0], 7, 6) && (h.Padding <==> bits(buf[0], 5, 5) == 1) && (h.Extension <==> bits(buf[0], 4, 4) == 1) && (h.Marker <==> bits(buf[1], 7, 7) == 1) && int(h.PayloadType) == bits(buf[1], 6, 0) && int(h.SequenceNumber) == be16(buf, 2) && int(h.Timestamp) == be32(buf, 4) && int(h.SSRC) == be32(buf, 8) && int(h.ExtensionProfile) == be16(buf, 12 + 4*bits(buf[0], 3, 0))
//@   loop 1: decreases extensionEnd - n
//@ end

//@ spec (*Packet).Unmarshal
//@   modifies p.*, p.Header.CSRC[*cap], p.Header.Extensions[*cap]
//@   ensures partition [C02]: err == nil ==> 12 <= off(p.Payload) - off(buf) && (off(p.Payload) - off(buf)) + len(p.Payload) + int(p.PaddingSize) == len(buf) && len(p.Payload) >= 0
//@   ensures payload_is_input [C02]: err == nil ==> sameobj(p.Payload, buf)
//@   ensures padding [C02,C03]: err == nil ==> (p.Header.Padding ==> int(p.PaddingSize) == int(buf[len(buf)-1])) && (!p.Header.Padding ==> p.PaddingSize == 0)
//@   ensures fixed_fields [C02,C03]: err == nil ==> int(p.Header.Version) == bits(buf[0], 7, 6) && (p.Header.Padding <==> bits(buf[0], 5, 5) == 1) && (p.Header.Extension <==> bits(buf[0], 4, 4) == 1) && (p.Header.Marker <==> bits(buf[1], 7, 7) == 1) && int(p.Header.PayloadType) == bits(buf[1], 6, 0) && int(p.Header.SequenceNumber) == be16(buf, 2) && int(p.Header.Timestamp) == be32(buf, 4) && int(p.Header.SSRC) == be32(buf, 8)
//@   ensures no_ext_profile [C02]: err == nil && bits(buf[0], 4, 4) == 0 ==> p.Header.ExtensionProfile == 0 && len(p.Header.Extensions) == 0
//@   ensures csrc [C02,C03]: err == nil ==> len(p.Header.CSRC) == bits(buf[0], 3, 0) && (forall i :: 0 <= i && i < len(p.Header.CSRC) ==> int(p.Header.CSRC[i]) == be32(buf, 12 + 4*i))
//@   ensures ext_values_are_input [C02]: err == nil ==> extsWithin(p.Header.Extensions, len(p.Header.Extensions), buf, off(p.Payload) - off(buf))
//@ end

//@ spec (*Header).GetExtension
//@   ensures disabled [C02,C05]: !h.Extension ==> result0 == nil
//@   ensures absent [C02,C05]: h.Extension && (forall k :: 0 <= k && k < len(h.Extensions) ==> h.Extensions[k].id != id) ==> result0 == nil
//@   ensures first_match [C02,C05]: h.Extension ==> forall k :: 0 <= k && k < len(h.Extensions) && h.Extensions[k].id == id && (forall m :: 0 <= m && m < k ==> h.Extensions[m].id != id) ==> sameobj(result0, h.Extensions[k].payload) && off(result0) == off(h.Extensions[k].payload) && len(result0) == len(h.Extensions[k].payload)
//@   loop 0: invariant none_yet [C02,C05]: rangeindex <= len(h.Extensions) - 1 && (forall m :: 0 <= m && m <= rangeindex ==> h.Extensions[m].id != id)
//@ end

//@ spec (*Header).GetExtensionIDs
//@   ensures disabled [C02,C05]: (!h.Extension || len(h.Extensions) == 0) ==> result0 == nil
//@   ensures ids [C02,C05]: h.Extension && len(h.Extensions) > 0 ==> len(result0) == len(h.Extensions) && fresh(result0) && (forall k :: 0 <= k && k < len(h.Extensions) ==> result0[k] == h.Extensions[k].id)
//@   loop 0: invariant sofar [C02,C05]: rangeindex <= len(h.Extensions) - 1 && len(ids) == rangeindex + 1 && fresh(ids) && ids != nil && cap(ids) >= len(h.Extensions) && (forall k :: 0 <= k && k <= rangeindex ==> ids[k] == h.Extensions[k].id)
//@ end

// ===== C01 / C04: encoding (Header.MarshalSize / MarshalTo / Marshal, Packet.*) =====
//
// These contracts are proved for headers with at most 2 extension elements
// (part of wfHeader): the loops over the elements are unrolled completely under
// that bound; the CSRC loop carries an inductive invariant. Sizes, values,
// destination buffers are unrestricted. [generated by /verif/tools/gen_marshal_spec.py 2]

//@ pure bool wfOneByte(h) = (0 < len(h.Extensions) ==> 1 <= h.Extensions[0].id && h.Extensions[0].id <= 14 && 1 <= len(h.Extensions[0].payload) && len(h.Extensions[0].payload) <= 16) && (1 < len(h.Extensions) ==> 1 <= h.Extensions[1].id && h.Extensions[1].id <= 14 && 1 <= len(h.Extensions[1].payload) && len(h.Extensions[1].payload) <= 16)
//@ pure bool wfTwoByte(h) = (0 < len(h.Extensions) ==> 1 <= h.Extensions[0].id && len(h.Extensions[0].payload) <= 255) && (1 < len(h.Extensions) ==> 1 <= h.Extensions[1].id && len(h.Extensions[1].payload) <= 255)
//@ pure bool wfLegacy(h) = len(h.Extensions) == 1 && h.Extensions[0].id == 0 && len(h.Extensions[0].payload) % 4 == 0 && len(h.Extensions[0].payload) <= 262140
//@ pure bool wfHeader(h) = h.Version <= 3 && h.PayloadType <= 127 && len(h.CSRC) <= 15 && len(h.Extensions) <= 2 && (!h.Extension ==> len(h.Extensions) == 0) && (h.Extension && h.ExtensionProfile == 48862 ==> wfOneByte(h)) && (h.Extension && h.ExtensionProfile == 4096 ==> wfTwoByte(h)) && (h.Extension && h.ExtensionProfile != 48862 && h.ExtensionProfile != 4096 ==> wfLegacy(h))
//@ pure extBytes(h) = ite(h.ExtensionProfile == 48862, ite(0 < len(h.Extensions), 1 + len(h.Extensions[0].payload), 0) + ite(1 < len(h.Extensions), 1 + len(h.Extensions[1].payload), 0), ite(h.ExtensionProfile == 4096, ite(0 < len(h.Extensions), 2 + len(h.Extensions[0].payload), 0) + ite(1 < len(h.Extensions), 2 + len(h.Extensions[1].payload), 0), len(h.Extensions[0].payload)))
//@ pure extWords(h) = (extBytes(h) + 3) / 4
//@ pure extBlock(h) = 4 + 4 * extWords(h)
//@ pure hdrSize(h) = 12 + 4 * len(h.CSRC) + ite(h.Extension, extBlock(h), 0)

//@ spec (Header).MarshalSize
//@   requires len(h.Extensions) <= 2 && len(h.CSRC) <= 15
//@   requires h.Extension && h.ExtensionProfile != 48862 && h.ExtensionProfile != 4096 ==> len(h.Extensions) >= 1
//@   loop 0: unroll 3 complete
//@   loop 1: unroll 3 complete
//@   ensures size [C01,C04]: result0 == hdrSize(h)
//@ end

// layout written by MarshalTo (RFC 3550 5.1, RFC 8285 4.2/4.3, as the encoder emits it: no padding between elements, zero padding at the end)
//@ pure bool hdrFixed(buf, h) = int(buf[0]) == int(h.Version) * 64 + bv(h.Padding) * 32 + bv(h.Extension) * 16 + len(h.CSRC) && int(buf[1]) == bv(h.Marker) * 128 + int(h.PayloadType) && be16(buf, 2) == int(h.SequenceNumber) && be32(buf, 4) == int(h.Timestamp) && be32(buf, 8) == int(h.SSRC)
//@ pure bool hdrCSRC(buf, h) = forall i :: 0 <= i && i < len(h.CSRC) ==> be32(buf, 12 + 4*i) == int(h.CSRC[i])
//@ pure bool hdrExtWord(buf, h) = be16(buf, (12 + 4 * len(h.CSRC))) == int(h.ExtensionProfile) && be16(buf, (12 + 4 * len(h.CSRC)) + 2) == extWords(h)
//@ pure bool hdrOneByte(buf, h) = (0 < len(h.Extensions) ==> int(buf[(12 + 4 * len(h.CSRC)) + 4 + 0]) == int(h.Extensions[0].id) * 16 + len(h.Extensions[0].payload) - 1 && eqseq(buf, (12 + 4 * len(h.CSRC)) + 5 + 0, h.Extensions[0].payload, 0, len(h.Extensions[0].payload))) && (1 < len(h.Extensions) ==> int(buf[(12 + 4 * len(h.CSRC)) + 4 + 0 + 1 + len(h.Extensions[0].payload)]) == int(h.Extensions[1].id) * 16 + len(h.Extensions[1].payload) - 1 && eqseq(buf, (12 + 4 * len(h.CSRC)) + 5 + 0 + 1 + len(h.Extensions[0].payload), h.Extensions[1].payload, 0, len(h.Extensions[1].payload)))
//@ pure bool hdrTwoByte(buf, h) = (0 < len(h.Extensions) ==> int(buf[(12 + 4 * len(h.CSRC)) + 4 + 0]) == int(h.Extensions[0].id) && int(buf[(12 + 4 * len(h.CSRC)) + 5 + 0]) == len(h.Extensions[0].payload) && eqseq(buf, (12 + 4 * len(h.CSRC)) + 6 + 0, h.Extensions[0].payload, 0, len(h.Extensions[0].payload))) && (1 < len(h.Extensions) ==> int(buf[(12 + 4 * len(h.CSRC)) + 4 + 0 + 2 + len(h.Extensions[0].payload)]) == int(h.Extensions[1].id) && int(buf[(12 + 4 * len(h.CSRC)) + 5 + 0 + 2 + len(h.Extensions[0].payload)]) == len(h.Extensions[1].payload) && eqseq(buf, (12 + 4 * len(h.CSRC)) + 6 + 0 + 2 + len(h.Extensions[0].payload), h.Extensions[1].payload, 0, len(h.Extensions[1].payload)))
//@ pure bool hdrLegacy(buf, h) = eqseq(buf, (12 + 4 * len(h.CSRC)) + 4, h.Extensions[0].payload, 0, len(h.Extensions[0].payload))
//@ pure bool hdrPad(buf, h) = forall q :: (12 + 4 * len(h.CSRC)) + 4 + extBytes(h) <= q && q < (12 + 4 * len(h.CSRC)) + extBlock(h) ==> buf[q] == 0
//@ pure bool extsDisjoint(buf, h) = (0 < len(h.Extensions) ==> !sameobj(h.Extensions[0].payload, buf)) && (1 < len(h.Extensions) ==> !sameobj(h.Extensions[1].payload, buf))

//@ spec (Header).MarshalTo
//@   int-overflow-checked
//@   requires wfHeader(h) && extsDisjoint(buf, h)
//@   modifies buf[*]
//@   loop 0: invariant csrc_pos [C01,C04]: rangeindex <= len(h.CSRC) - 1 && n == 16 + 4 * rangeindex && sameobj(buf, old(buf)) && off(buf) == off(old(buf)) && len(buf) == len(old(buf)) && len(buf) >= hdrSize(h)
//@   loop 0: invariant csrc_done [C01,C04]: forall i :: 0 <= i && i <= rangeindex ==> be32(buf, 12 + 4*i) == int(h.CSRC[i])
//@   loop 0: invariant fixed_kept [C01,C04]: hdrFixed(buf, h)
//@   loop 0: invariant beyond [C04]: forall q :: 16 + 4 * rangeindex <= q && q < len(buf) ==> buf[q] == old(buf[q])
//@   loop 1: unroll 3 complete
//@   loop 1: invariant one_pos [C01,C04]: startExtensionsPos == (12 + 4 * len(h.CSRC)) + 4 && extHeaderPos == (12 + 4 * len(h.CSRC)) && (rangeindex == -1 ==> n == startExtensionsPos + 0) && (rangeindex == 0 ==> n == startExtensionsPos + 0 + 1 + len(h.Extensions[0].payload)) && (rangeindex == 1 ==> n == startExtensionsPos + 0 + 1 + len(h.Extensions[0].payload) + 1 + len(h.Extensions[1].payload))
//@   loop 1: invariant one_bytes [C01,C04]: (rangeindex >= 0 ==> int(buf[(12 + 4 * len(h.CSRC)) + 4 + 0]) == int(h.Extensions[0].id) * 16 + len(h.Extensions[0].payload) - 1 && eqseq(buf, (12 + 4 * len(h.CSRC)) + 5 + 0, h.Extensions[0].payload, 0, len(h.Extensions[0].payload))) && (rangeindex >= 1 ==> int(buf[(12 + 4 * len(h.CSRC)) + 4 + 0 + 1 + len(h.Extensions[0].payload)]) == int(h.Extensions[1].id) * 16 + len(h.Extensions[1].payload) - 1 && eqseq(buf, (12 + 4 * len(h.CSRC)) + 5 + 0 + 1 + len(h.Extensions[0].payload), h.Extensions[1].payload, 0, len(h.Extensions[1].payload)))
//@   loop 2: unroll 3 complete
//@   loop 2: invariant two_pos [C01,C04]: startExtensionsPos == (12 + 4 * len(h.CSRC)) + 4 && extHeaderPos == (12 + 4 * len(h.CSRC)) && (rangeindex == -1 ==> n == startExtensionsPos + 0) && (rangeindex == 0 ==> n == startExtensionsPos + 0 + 2 + len(h.Extensions[0].payload)) && (rangeindex == 1 ==> n == startExtensionsPos + 0 + 2 + len(h.Extensions[0].payload) + 2 + len(h.Extensions[1].payload))
//@   loop 2: invariant two_bytes [C01,C04]: (rangeindex >= 0 ==> int(buf[(12 + 4 * len(h.CSRC)) + 4 + 0]) == int(h.Extensions[0].id) && int(buf[(12 + 4 * len(h.CSRC)) + 5 + 0]) == len(h.Extensions[0].payload) && eqseq(buf, (12 + 4 * len(h.CSRC)) + 6 + 0, h.Extensions[0].payload, 0, len(h.Extensions[0].payload))) && (rangeindex >= 1 ==> int(buf[(12 + 4 * len(h.CSRC)) + 4 + 0 + 2 + len(h.Extensions[0].payload)]) == int(h.Extensions[1].id) && int(buf[(12 + 4 * len(h.CSRC)) + 5 + 0 + 2 + len(h.Extensions[0].payload)]) == len(h.Extensions[1].payload) && eqseq(buf, (12 + 4 * len(h.CSRC)) + 6 + 0 + 2 + len(h.Extensions[0].payload), h.Extensions[1].payload, 0, len(h.Extensions[1].payload)))
//@   loop 3: unroll 4 complete
//@   loop 3: invariant pad_pos [C01,C04]: extSize == extBytes(h) && roundedExtSize == 4 * extWords(h) && n == (12 + 4 * len(h.CSRC)) + 4 + extSize + i && i >= 0 && i <= 3
//@   loop 3: invariant len_field [C01,C04]: be16(buf, (12 + 4 * len(h.CSRC)) + 2) == extWords(h)
//@   loop 3: invariant zeros [C01,C04]: forall q :: (12 + 4 * len(h.CSRC)) + 4 + extBytes(h) <= q && q < n ==> buf[q] == 0
//@   ensures short [C04]: len(buf) < hdrSize(h) ==> n == 0 && errIs(err, io.ErrShortBuffer)
//@   ensures ok [C01,C04]: len(buf) >= hdrSize(h) ==> err == nil && n == hdrSize(h)
//@   ensures fixed [C01,C04]: len(buf) >= hdrSize(h) ==> hdrFixed(buf, h)
//@   ensures csrc [C01,C04]: len(buf) >= hdrSize(h) ==> hdrCSRC(buf, h)
//@   ensures ext_word [C01,C04]: len(buf) >= hdrSize(h) && h.Extension ==> hdrExtWord(buf, h)
//@   ensures one_byte [C01,C04]: len(buf) >= hdrSize(h) && h.Extension && h.ExtensionProfile == 48862 ==> hdrOneByte(buf, h)
//@   ensures two_byte [C01,C04]: len(buf) >= hdrSize(h) && h.Extension && h.ExtensionProfile == 4096 ==> hdrTwoByte(buf, h)
//@   ensures legacy [C01,C04]: len(buf) >= hdrSize(h) && h.Extension && h.ExtensionProfile != 48862 && h.ExtensionProfile != 4096 ==> hdrLegacy(buf, h)
//@   ensures ext_padding [C01,C04]: len(buf) >= hdrSize(h) && h.Extension ==> hdrPad(buf, h)
//@   ensures beyond_untouched [C04]: len(buf) >= hdrSize(h) ==> forall q :: hdrSize(h) <= q && q < len(buf) ==> buf[q] == old(buf[q])
//@ end
// ===== end of generated encoder contracts =====

//@ pure bool hdrImage(buf, h) = hdrFixed(buf, h) && hdrCSRC(buf, h) && (h.Extension ==> hdrExtWord(buf, h) && hdrPad(buf, h)) && (h.Extension && h.ExtensionProfile == 48862 ==> hdrOneByte(buf, h)) && (h.Extension && h.ExtensionProfile == 4096 ==> hdrTwoByte(buf, h)) && (h.Extension && h.ExtensionProfile != 48862 && h.ExtensionProfile != 4096 ==> hdrLegacy(buf, h))

//@ spec (Header).Marshal
//@   requires wfHeader(h)
//@   ensures ok [C01]: err == nil && buf != nil && fresh(buf) && len(buf) == hdrSize(h)
//@   ensures image [C01]: hdrImage(buf, h)
//@ end

//@ pure bool wfPacket(p) = wfHeader(p.Header) && (p.Header.Padding <==> p.PaddingSize >= 1)
//@ pure pktSize(p) = hdrSize(p.Header) + len(p.Payload) + int(p.PaddingSize)

//@ spec (Packet).MarshalSize
//@   requires len(p.Header.Extensions) <= 2 && len(p.Header.CSRC) <= 15
//@   requires p.Header.Extension && p.Header.ExtensionProfile != 48862 && p.Header.ExtensionProfile != 4096 ==> len(p.Header.Extensions) >= 1
//@   ensures size [C01,C04]: result0 == pktSize(p)
//@ end

// Packet.MarshalTo: header image, then the payload, then PaddingSize-1 zero
// octets and the padding count (RFC 3550 5.1) - every octet below n is
// determined by the packet alone, whatever buf held before.
//@ spec (*Packet).MarshalTo
//@   requires wfHeader(p.Header) && extsDisjoint(buf, p.Header) && !sameobj(p.Payload, buf)
//@   modifies buf[*]
//@   loop 0: invariant pos [C01,C04]: 0 <= i && i <= int(p.PaddingSize) - 1 && n == hdrSize(p.Header) && m == len(p.Payload) && n + m + int(p.PaddingSize) <= len(buf) && sameobj(buf, old(buf)) && off(buf) == off(old(buf)) && len(buf) == len(old(buf)) && p.Header.Padding && p.PaddingSize >= 1
//@   loop 0: invariant zeros [C04]: forall q :: n + m <= q && q < n + m + i ==> buf[q] == 0
//@   loop 0: invariant kept [C01,C04]: hdrFixed(buf, p.Header) && hdrCSRC(buf, p.Header) && (p.Header.Extension ==> hdrExtWord(buf, p.Header)) && eqseq(buf, hdrSize(p.Header), p.Payload, 0, len(p.Payload))
//@   loop 0: invariant beyond [C04]: forall q :: n + m + i <= q && q < len(buf) ==> buf[q] == old(buf[q])
//@   loop 0: decreases int(p.PaddingSize) - i
//@   ensures bad_padding [C01,C04]: p.Header.Padding && p.PaddingSize == 0 ==> n == 0 && errIs(err, errInvalidRTPPadding)
//@   ensures short [C04]: !(p.Header.Padding && p.PaddingSize == 0) && len(buf) < pktSize(p) ==> n == 0 && errIs(err, io.ErrShortBuffer)
//@   ensures ok [C01,C04]: !(p.Header.Padding && p.PaddingSize == 0) && len(buf) >= pktSize(p) ==> err == nil && n == pktSize(p)
//@   ensures header [C01,C04]: err == nil ==> hdrFixed(buf, p.Header) && hdrCSRC(buf, p.Header) && (p.Header.Extension ==> hdrExtWord(buf, p.Header))
//@   ensures payload [C01,C04]: err == nil ==> eqseq(buf, hdrSize(p.Header), p.Payload, 0, len(p.Payload))
//@   ensures pad_count [C01,C04]: err == nil && p.Header.Padding ==> int(buf[n-1]) == int(p.PaddingSize)
//@   ensures pad_zero [C04]: err == nil && p.Header.Padding ==> forall q :: hdrSize(p.Header) + len(p.Payload) <= q && q < n - 1 ==> buf[q] == 0
//@   ensures beyond_untouched [C04]: err == nil ==> forall q :: n <= q && q < len(buf) ==> buf[q] == old(buf[q])
//@ end

// Packet.Marshal: a fresh buffer of exactly MarshalSize() octets holding what
// MarshalTo writes (so MarshalTo into any sufficient destination is identical to it).
//@ spec (Packet).Marshal
//@   requires wfHeader(p.Header)
//@   ensures bad_padding [C01,C04]: p.Header.Padding && p.PaddingSize == 0 ==> buf == nil && errIs(err, errInvalidRTPPadding)
//@   ensures ok [C01,C04]: !(p.Header.Padding && p.PaddingSize == 0) ==> err == nil && buf != nil && fresh(buf) && len(buf) == pktSize(p)
//@   ensures header [C01,C04]: err == nil ==> hdrFixed(buf, p.Header) && hdrCSRC(buf, p.Header) && (p.Header.Extension ==> hdrExtWord(buf, p.Header))
//@   ensures payload [C01,C04]: err == nil ==> eqseq(buf, hdrSize(p.Header), p.Payload, 0, len(p.Payload))
//@   ensures pad_count [C01,C04]: err == nil && p.Header.Padding ==> int(buf[len(buf) - 1]) == int(p.PaddingSize)
//@   ensures pad_zero [C04]: err == nil && p.Header.Padding ==> forall q :: hdrSize(p.Header) + len(p.Payload) <= q && q < len(buf) - 1 ==> buf[q] == 0
//@ end

// ===== C05: SetExtension / DelExtension / GetExtension as an ordered map =====
//
// The element list is the abstract state: SetExtension replaces the value of
// the first element carrying the id or appends (id, value); DelExtension
// removes the first element carrying the id and keeps the order of the rest;
// a call that returns an error changes nothing. Values are stored as the
// caller's slices (sameSlice), which is what GetExtension hands back.
//@ pure bool sameSlice(a, b) = sameobj(a, b) && off(a) == off(b) && len(a) == len(b)
//@ pure bool representable(profile, id, n) = (profile == 48862 ==> 1 <= id && id <= 14 && 1 <= n && n <= 16) && (profile == 4096 ==> 1 <= id && n <= 255) && (profile != 48862 && profile != 4096 ==> id == 0)

//@ spec (*Header).SetExtension
//@   modifies h.Extension, h.ExtensionProfile, h.Extensions, h.Extensions[*cap]
//@   loop 0: invariant nomatch [C05]: rangeindex <= len(h.Extensions) - 1 && (forall m :: 0 <= m && m <= rangeindex ==> h.Extensions[m].id != id)
//@   ensures rejected_unchanged [C05]: err != nil ==> (h.Extension <==> old(h.Extension)) && h.ExtensionProfile == old(h.ExtensionProfile) && sameSlice(h.Extensions, old(h.Extensions)) && (forall j :: 0 <= j && j < len(h.Extensions) ==> h.Extensions[j].id == old(h.Extensions[j].id) && sameSlice(h.Extensions[j].payload, old(h.Extensions[j].payload)))
//@   ensures accepted_is_representable [C05]: err == nil ==> representable(int(h.ExtensionProfile), int(id), len(payload))
//@   ensures enabled [C05]: err == nil ==> h.Extension && (old(h.Extension) ==> h.ExtensionProfile == old(h.ExtensionProfile))
//@   ensures others_kept [C05]: err == nil ==> len(h.Extensions) >= len(old(h.Extensions)) && (forall j :: 0 <= j && j < len(old(h.Extensions)) ==> h.Extensions[j].id == old(h.Extensions[j].id) && (old(h.Extensions[j].id) != id || !old(h.Extension) ==> sameSlice(h.Extensions[j].payload, old(h.Extensions[j].payload))))
//@   ensures appended [C05]: err == nil && (!old(h.Extension) || (forall m :: 0 <= m && m < len(old(h.Extensions)) ==> old(h.Extensions[m].id) != id)) ==> len(h.Extensions) == len(old(h.Extensions)) + 1 && h.Extensions[len(h.Extensions) - 1].id == id && sameSlice(h.Extensions[len(h.Extensions) - 1].payload, payload)
//@   ensures replaced [C05]: err == nil && old(h.Extension) ==> forall k :: 0 <= k && k < len(old(h.Extensions)) && old(h.Extensions[k].id) == id && (forall m :: 0 <= m && m < k ==> old(h.Extensions[m].id) != id) ==> len(h.Extensions) == len(old(h.Extensions)) && sameSlice(h.Extensions[k].payload, payload)
//@   ensures later_duplicates_kept [C05]: err == nil && old(h.Extension) ==> forall k, j :: 0 <= k && k < j && j < len(old(h.Extensions)) && old(h.Extensions[k].id) == id ==> sameSlice(h.Extensions[j].payload, old(h.Extensions[j].payload))
//@ end

//@ spec (*Header).DelExtension
//@   modifies h.Extensions, h.Extensions[*cap]
//@   loop 0: invariant nomatch [C05]: rangeindex <= len(h.Extensions) - 1 && (forall m :: 0 <= m && m <= rangeindex ==> h.Extensions[m].id != id)
//@   ensures disabled [C05]: !h.Extension ==> errIs(err, errHeaderExtensionsNotEnabled)
//@   ensures not_found [C05]: h.Extension && (forall m :: 0 <= m && m < len(old(h.Extensions)) ==> old(h.Extensions[m].id) != id) ==> errIs(err, errHeaderExtensionNotFound)
//@   ensures rejected_unchanged [C05]: err != nil ==> sameSlice(h.Extensions, old(h.Extensions)) && (forall j :: 0 <= j && j < len(h.Extensions) ==> h.Extensions[j].id == old(h.Extensions[j].id) && sameSlice(h.Extensions[j].payload, old(h.Extensions[j].payload)))
//@   ensures removed [C05]: forall k :: 0 <= k && k < len(old(h.Extensions)) && h.Extension && old(h.Extensions[k].id) == id && (forall m :: 0 <= m && m < k ==> old(h.Extensions[m].id) != id) ==> err == nil && len(h.Extensions) == len(old(h.Extensions)) - 1
//@   ensures witness [C05]: err == nil ==> exists w :: 0 <= w && w < len(old(h.Extensions)) && old(h.Extensions[w].id) == id && (forall m :: 0 <= m && m < w ==> old(h.Extensions[m].id) != id) && len(h.Extensions) == len(old(h.Extensions)) - 1 && (forall j :: 0 <= j && j < w ==> h.Extensions[j].id == old(h.Extensions[j].id) && sameSlice(h.Extensions[j].payload, old(h.Extensions[j].payload))) && (forall j :: w <= j && j < len(old(h.Extensions)) - 1 ==> h.Extensions[j].id == old(h.Extensions[j + 1].id) && sameSlice(h.Extensions[j].payload, old(h.Extensions[j + 1].payload)))
//@   ensures before_kept [C05]: err == nil ==> forall k, j :: 0 <= j && j < k && k < len(old(h.Extensions)) && old(h.Extensions[k].id) == id && (forall m :: 0 <= m && m < k ==> old(h.Extensions[m].id) != id) ==> h.Extensions[j].id == old(h.Extensions[j].id) && sameSlice(h.Extensions[j].payload, old(h.Extensions[j].payload))
//@   ensures after_shifted [C05]: err == nil ==> forall k, j :: 0 <= k && k <= j && j < len(old(h.Extensions)) - 1 && old(h.Extensions[k].id) == id && (forall m :: 0 <= m && m < k ==> old(h.Extensions[m].id) != id) ==> h.Extensions[j].id == old(h.Extensions[j + 1].id) && sameSlice(h.Extensions[j].payload, old(h.Extensions[j + 1].payload))
//@ end

// GetExtension (contract above: nil when disabled or absent, else the value of
// the first element carrying the id) read after these two contracts gives the
// map laws; the composition needs the existence of a *first* matching element,
// an induction the solvers do not find: it is an argument over the contracts,
// not a checked lemma.

// ===== C01: Header.Unmarshal(Header.Marshal(h)) == h =====
//
// The encoder side is used through its contract (hdrImage: every octet of the
// image as a function of h); the decoder's body is executed on that image, its
// extension loop unrolled completely (at most 2 elements and 3 padding octets,
// the bound of wfHeader), its CSRC loop cut by its own invariant.
//@ spec verifLemmaHeaderRoundTrip
//@   requires wfHeader(h)
//@   case noext: !h.Extension
//@   case onebyte0: h.Extension && h.ExtensionProfile == 48862 && len(h.Extensions) == 0
//@   case onebyte1: h.Extension && h.ExtensionProfile == 48862 && len(h.Extensions) == 1
//@   case onebyte2 [THOROUGH]: h.Extension && h.ExtensionProfile == 48862 && len(h.Extensions) == 2
//@   case twobyte0: h.Extension && h.ExtensionProfile == 4096 && len(h.Extensions) == 0
//@   case twobyte1: h.Extension && h.ExtensionProfile == 4096 && len(h.Extensions) == 1
//@   case twobyte2 [THOROUGH]: h.Extension && h.ExtensionProfile == 4096 && len(h.Extensions) == 2
//@   case legacy: h.Extension && h.ExtensionProfile != 48862 && h.ExtensionProfile != 4096
//@   inline-calls Unmarshal
//@   unroll 6 complete
//@   unroll-loops Unmarshal:1
//@   prune-paths
//@   instantiate-reads
//@   ensures accepted [C01,C05]: err == nil && n == hdrSize(h)
//@   ensures fixed [C01]: b.Version == h.Version && (b.Padding <==> h.Padding) && (b.Extension <==> h.Extension) && (b.Marker <==> h.Marker) && b.PayloadType == h.PayloadType && b.SequenceNumber == h.SequenceNumber && b.Timestamp == h.Timestamp && b.SSRC == h.SSRC
//@   ensures csrc [C01]: len(b.CSRC) == len(h.CSRC) && (forall i :: 0 <= i && i < len(h.CSRC) ==> b.CSRC[i] == h.CSRC[i])
//@   ensures profile [C01]: h.Extension ==> b.ExtensionProfile == h.ExtensionProfile
//@   ensures elements [C01,C05]: len(b.Extensions) == len(h.Extensions) && (0 < len(h.Extensions) ==> b.Extensions[0].id == h.Extensions[0].id && len(b.Extensions[0].payload) == len(h.Extensions[0].payload) && eqseq(b.Extensions[0].payload, 0, h.Extensions[0].payload, 0, len(h.Extensions[0].payload))) && (1 < len(h.Extensions) ==> b.Extensions[1].id == h.Extensions[1].id && len(b.Extensions[1].payload) == len(h.Extensions[1].payload) && eqseq(b.Extensions[1].payload, 0, h.Extensions[1].payload, 0, len(h.Extensions[1].payload)))
//@ end
func verifLemmaHeaderRoundTrip(h Header) (b Header, n int, err error) {
	buf, err := h.Marshal()
	if err != nil {
		return b, 0, err
	}
	n, err = b.Unmarshal(buf)

	return b, n, err
}

// ===== C05: a header left without elements still serialises =====
//
// DelExtension can remove the only element of a legacy (RFC 3550) extension
// block; Marshal of such a header must not panic. The bodies of Marshal,
// MarshalSize and MarshalTo are executed on it (their functional contracts
// above assume exactly one legacy element).
//@ spec verifLemmaLegacyWithoutElementMarshals
//@   requires h.Extension && h.ExtensionProfile != 48862 && h.ExtensionProfile != 4096 && len(h.Extensions) == 0
//@   requires h.Version <= 3 && h.PayloadType <= 127 && len(h.CSRC) <= 15
//@   inline-calls Marshal, MarshalSize, MarshalTo
//@   prune-paths
//@   ensures empty_block [C05]: err == nil && len(buf) == 16 + 4*len(h.CSRC) && be16(buf, 12 + 4*len(h.CSRC)) == int(h.ExtensionProfile) && be16(buf, 14 + 4*len(h.CSRC)) == 0
//@ end
func verifLemmaLegacyWithoutElementMarshals(h Header) (buf []byte, err error) {
	return h.Marshal()
}

// ===== C06: packetizer =====
//
// The payloader and the sequencer are interface values: their contracts below
// are assumptions about every implementation (the sequencer of this package is
// verified against its own, stronger contract under C07; fragment sizes are
// C08's subject). timegen is a function value: whatever instant it returns.
//@ trusted-spec (github.com/pion/rtp.Payloader).Payload
//@ end
//@ trusted-spec (github.com/pion/rtp.Sequencer).NextSequenceNumber
//@ end

//@ spec (*packetizer).Packetize
//@   requires p.Payloader != nil && p.Sequencer != nil
//@   modifies p.Timestamp
//@   loop 0: invariant built [C06]: rangeindex <= len(payloads) - 1 && len(packets) == len(payloads) && fresh(packets) && p.Timestamp == old(p.Timestamp) && (forall k :: 0 <= k && k <= rangeindex ==> packets[k] != nil && fresh(packets[k]) && packets[k].Header.Version == 2 && !packets[k].Header.Padding && packets[k].PaddingSize == 0 && !packets[k].Header.Extension && len(packets[k].Header.Extensions) == 0 && cap(packets[k].Header.Extensions) == 0 && packets[k].Header.PayloadType == p.PayloadType && packets[k].Header.SSRC == p.SSRC && packets[k].Header.Timestamp == p.Timestamp && len(packets[k].Header.CSRC) == 0 && (packets[k].Header.Marker <==> k == len(payloads) - 1) && sameSlice(packets[k].Payload, payloads[k]))
//@   loop 0: invariant distinct [C06]: forall a, b :: 0 <= a && a < b && b <= rangeindex ==> !sameobj(packets[a], packets[b])
//@   ensures empty [C06]: len(payload) == 0 ==> result0 == nil && p.Timestamp == old(p.Timestamp)
//@   ensures timestamp_advances [C06]: len(payload) > 0 ==> int(p.Timestamp) == (int(old(p.Timestamp)) + int(samples)) % 4294967296
//@   ensures headers [C06]: forall k :: 0 <= k && k < len(result0) ==> result0[k] != nil && result0[k].Header.Version == 2 && !result0[k].Header.Padding && result0[k].PaddingSize == 0 && result0[k].Header.PayloadType == p.PayloadType && result0[k].Header.SSRC == p.SSRC && result0[k].Header.Timestamp == old(p.Timestamp) && len(result0[k].Header.CSRC) == 0 && (result0[k].Header.Marker <==> k == len(result0) - 1)
//@   ensures within_mtu [C06]: forall k :: 0 <= k && k < len(result0) - 1 && len(result0[k].Payload) <= int(p.MTU) - 12 ==> hdrSize(result0[k].Header) + len(result0[k].Payload) <= int(p.MTU)
//@   ensures last_within_mtu [C06]: len(result0) > 0 && len(result0[len(result0) - 1].Payload) <= int(p.MTU) - 12 ==> hdrSize(result0[len(result0) - 1].Header) + len(result0[len(result0) - 1].Payload) <= int(p.MTU)
//@   ensures no_extension_before_last [C06]: forall k :: 0 <= k && k < len(result0) - 1 ==> !result0[k].Header.Extension && len(result0[k].Header.Extensions) == 0
//@   ensures no_send_time [C06]: len(result0) > 0 && p.extensionNumbers.AbsSendTime == 0 ==> !result0[len(result0) - 1].Header.Extension && len(result0[len(result0) - 1].Header.Extensions) == 0
//@   ensures send_time_on_last [C06]: len(result0) > 0 && p.extensionNumbers.AbsSendTime != 0 ==> result0[len(result0) - 1].Header.Extension && len(result0[len(result0) - 1].Header.Extensions) == 1 && int(result0[len(result0) - 1].Header.Extensions[0].id) == p.extensionNumbers.AbsSendTime % 256 && len(result0[len(result0) - 1].Header.Extensions[0].payload) == 3 && fresh(result0[len(result0) - 1].Header.Extensions[0].payload)
//@ end

//@ spec (*packetizer).GeneratePadding
//@   requires p.Sequencer != nil
//@   loop 0: invariant built [C06]: 0 <= i && i <= int(samples) && len(packets) == int(samples) && fresh(packets) && (forall k :: 0 <= k && k < i ==> packets[k] != nil && fresh(packets[k]) && packets[k].Header.Version == 2 && packets[k].Header.Padding && packets[k].PaddingSize >= 1 && !packets[k].Header.Extension && !packets[k].Header.Marker && packets[k].Header.PayloadType == p.PayloadType && packets[k].Header.SSRC == p.SSRC && packets[k].Header.Timestamp == p.Timestamp && len(packets[k].Header.CSRC) == 0 && len(packets[k].Payload) == 0)
//@   loop 0: decreases int(samples) - i
//@   ensures none [C06]: samples == 0 ==> result0 == nil
//@   ensures count [C06]: samples > 0 ==> len(result0) == int(samples)
//@   ensures padding_only [C06]: forall k :: 0 <= k && k < len(result0) ==> result0[k] != nil && result0[k].Header.Version == 2 && result0[k].Header.Padding && result0[k].PaddingSize >= 1 && !result0[k].Header.Extension && !result0[k].Header.Marker && result0[k].Header.PayloadType == p.PayloadType && result0[k].Header.SSRC == p.SSRC && result0[k].Header.Timestamp == p.Timestamp && len(result0[k].Header.CSRC) == 0 && len(result0[k].Payload) == 0
//@ end

//@ spec (*packetizer).SkipSamples
//@   modifies p.Timestamp
//@   ensures gap [C06]: int(p.Timestamp) == (int(old(p.Timestamp)) + int(skippedSamples)) % 4294967296
//@ end

// ===== C19 (decoder side): VLA.Unmarshal is memory-safe, bounded and reuse-safe =====
//
// The decoding context walks the payload with ctx.offset; every helper keeps
// 0 <= offset <= len(payload) and reads only below len(payload).
//@ spec (*vlaUnmarshalingContext).checkRemainingLen
//@   requires ctx != nil && 0 <= ctx.offset
//@   ensures def [C19]: result0 <==> len(ctx.payload) - ctx.offset >= requiredLen
//@ end

//@ spec (*VLA).unmarshalSpatialLayers
//@   requires v != nil && ctx != nil && ctx.offset == 0
//@   modifies v.RTPStreamID, v.RTPStreamCount, ctx.offset, ctx.slBMField, ctx.slBMs
//@   loop 0: unroll 5 complete
//@   loop 1: unroll 5 complete
//@   ensures short [C19]: len(ctx.payload) == 0 ==> result0 != nil
//@   ensures header [C19]: result0 == nil ==> v.RTPStreamID == bits(ctx.payload[0], 7, 6) && v.RTPStreamCount == bits(ctx.payload[0], 5, 4) + 1 && int(ctx.slBMField) == bits(ctx.payload[0], 3, 0)
//@   ensures consumed [C19]: result0 == nil ==> ctx.offset == ite(bits(ctx.payload[0], 3, 0) != 0, 1, 2 + bits(ctx.payload[0], 5, 4) / 2) && ctx.offset <= len(ctx.payload)
//@   ensures masks [C19]: result0 == nil ==> ctx.slBMs[0] <= 15 && (v.RTPStreamCount > 1 ==> ctx.slBMs[1] <= 15) && (v.RTPStreamCount > 2 ==> ctx.slBMs[2] <= 15) && (v.RTPStreamCount > 3 ==> ctx.slBMs[3] <= 15)
//@   ensures bounded_on_error [C19]: result0 != nil ==> 0 <= ctx.offset && ctx.offset <= len(ctx.payload)
//@ end

// #tl fields and target bitrates. At most 4 streams x 4 spatial layers are
// appended to whatever the list held on entry (Unmarshal empties it first).
//@ spec (*VLA).unmarshalTemporalLayers
//@   requires v != nil && ctx != nil && 1 <= v.RTPStreamCount && v.RTPStreamCount <= 4 && 0 <= ctx.offset && ctx.offset <= len(ctx.payload)
//@   requires len(v.ActiveSpatialLayer) == 0
//@   modifies v.ActiveSpatialLayer, v.ActiveSpatialLayer[*cap], ctx.offset
//@   loop 0: invariant walk [C19]: 0 <= streamID && streamID <= v.RTPStreamCount && 0 <= temporalLayerIndex && temporalLayerIndex <= 4 && 0 <= ctx.offset && ctx.offset < len(ctx.payload) && len(v.ActiveSpatialLayer) <= 4 * streamID && sameSlice(ctx.payload, old(ctx.payload)) && v.RTPStreamCount == old(v.RTPStreamCount) && (fresh(v.ActiveSpatialLayer) || (sameobj(v.ActiveSpatialLayer, old(v.ActiveSpatialLayer)) && off(v.ActiveSpatialLayer) == off(old(v.ActiveSpatialLayer)) && cap(v.ActiveSpatialLayer) == cap(old(v.ActiveSpatialLayer))))
//@   loop 0: invariant layers [C19]: forall k :: 0 <= k && k < len(v.ActiveSpatialLayer) ==> fresh(v.ActiveSpatialLayer[k].TargetBitrates) && 1 <= len(v.ActiveSpatialLayer[k].TargetBitrates) && len(v.ActiveSpatialLayer[k].TargetBitrates) <= 4
//@   loop 0: decreases v.RTPStreamCount - streamID
//@   loop 1: invariant walk [C19]: 0 <= spatialID && spatialID <= 4 && 0 <= streamID && streamID < v.RTPStreamCount && 0 <= temporalLayerIndex && temporalLayerIndex <= 4 && 0 <= ctx.offset && ctx.offset < len(ctx.payload) && len(v.ActiveSpatialLayer) <= 4 * streamID + spatialID && sameSlice(ctx.payload, old(ctx.payload)) && v.RTPStreamCount == old(v.RTPStreamCount) && (fresh(v.ActiveSpatialLayer) || (sameobj(v.ActiveSpatialLayer, old(v.ActiveSpatialLayer)) && off(v.ActiveSpatialLayer) == off(old(v.ActiveSpatialLayer)) && cap(v.ActiveSpatialLayer) == cap(old(v.ActiveSpatialLayer))))
//@   loop 1: invariant layers [C19]: forall k :: 0 <= k && k < len(v.ActiveSpatialLayer) ==> fresh(v.ActiveSpatialLayer[k].TargetBitrates) && 1 <= len(v.ActiveSpatialLayer[k].TargetBitrates) && len(v.ActiveSpatialLayer[k].TargetBitrates) <= 4
//@   loop 1: decreases 4 - spatialID
//@   loop 2: invariant walk [C19]: 0 <= ctx.offset && ctx.offset <= len(ctx.payload) && sameSlice(ctx.payload, old(ctx.payload)) && len(v.ActiveSpatialLayer) <= 16
//@   loop 2: invariant layers [C19]: forall k :: 0 <= k && k < len(v.ActiveSpatialLayer) ==> fresh(v.ActiveSpatialLayer[k].TargetBitrates) && 1 <= len(v.ActiveSpatialLayer[k].TargetBitrates) && len(v.ActiveSpatialLayer[k].TargetBitrates) <= 4
//@   loop 3: invariant walk [C19]: 0 <= ctx.offset && ctx.offset <= len(ctx.payload) && sameSlice(ctx.payload, old(ctx.payload)) && len(v.ActiveSpatialLayer) <= 16
//@   loop 3: invariant layers [C19]: forall k :: 0 <= k && k < len(v.ActiveSpatialLayer) ==> fresh(v.ActiveSpatialLayer[k].TargetBitrates) && 1 <= len(v.ActiveSpatialLayer[k].TargetBitrates) && len(v.ActiveSpatialLayer[k].TargetBitrates) <= 4
//@   ensures bounded [C19]: 0 <= ctx.offset && ctx.offset <= len(ctx.payload) && sameSlice(ctx.payload, old(ctx.payload))
//@   ensures count [C19]: len(v.ActiveSpatialLayer) <= 16
//@   ensures backing [C19]: fresh(v.ActiveSpatialLayer) || (sameobj(v.ActiveSpatialLayer, old(v.ActiveSpatialLayer)) && off(v.ActiveSpatialLayer) == off(old(v.ActiveSpatialLayer)) && cap(v.ActiveSpatialLayer) == cap(old(v.ActiveSpatialLayer)))
//@ end

//@ spec (*VLA).unmarshalResolutionAndFramerate
//@   requires v != nil && ctx != nil && 0 <= ctx.offset && ctx.offset <= len(ctx.payload) && len(v.ActiveSpatialLayer) <= 16
//@   modifies v.HasResolutionAndFramerate, v.ActiveSpatialLayer[*], ctx.offset
//@   loop 0: invariant walk [C19]: rangeindex <= len(v.ActiveSpatialLayer) - 1 && ctx.offset == old(ctx.offset) + 5 * (rangeindex + 1) && old(ctx.offset) + 5 * len(v.ActiveSpatialLayer) <= len(ctx.payload) && sameSlice(ctx.payload, old(ctx.payload)) && sameSlice(v.ActiveSpatialLayer, old(v.ActiveSpatialLayer)) && v.HasResolutionAndFramerate
//@   loop 0: invariant values [C19]: forall k :: 0 <= k && k <= rangeindex ==> v.ActiveSpatialLayer[k].Width == be16(ctx.payload, old(ctx.offset) + 5*k) + 1 && v.ActiveSpatialLayer[k].Height == be16(ctx.payload, old(ctx.offset) + 5*k + 2) + 1 && v.ActiveSpatialLayer[k].Framerate == int(ctx.payload[old(ctx.offset) + 5*k + 4])
//@   ensures consumed [C19]: result0 == nil ==> ctx.offset == old(ctx.offset) + 5 * len(v.ActiveSpatialLayer) && ctx.offset <= len(ctx.payload) && v.HasResolutionAndFramerate
//@   ensures values [C19]: result0 == nil ==> forall k :: 0 <= k && k < len(v.ActiveSpatialLayer) ==> v.ActiveSpatialLayer[k].Width == be16(ctx.payload, old(ctx.offset) + 5*k) + 1 && v.ActiveSpatialLayer[k].Height == be16(ctx.payload, old(ctx.offset) + 5*k + 2) + 1 && v.ActiveSpatialLayer[k].Framerate == int(ctx.payload[old(ctx.offset) + 5*k + 4])
//@   ensures short [C19]: result0 != nil ==> ctx.offset == old(ctx.offset) && len(ctx.payload) - ctx.offset < 5 * len(v.ActiveSpatialLayer)
//@   ensures list_kept [C19]: sameSlice(v.ActiveSpatialLayer, old(v.ActiveSpatialLayer)) && sameSlice(ctx.payload, old(ctx.payload))
//@ end

// Unmarshal: never panics, never reports more bytes than it was given, and what
// it reports does not depend on what the receiver held before.
//@ spec (*VLA).Unmarshal
//@   modifies v.*
//@   ensures bounded [C19]: 0 <= result0 && result0 <= len(payload)
//@   ensures layers_bounded [C19]: result1 == nil ==> len(v.ActiveSpatialLayer) <= 16 && v.RTPStreamCount == bits(payload[0], 5, 4) + 1 && v.RTPStreamID == bits(payload[0], 7, 6)
//@   ensures reuse_safe [C19]: result1 == nil ==> (v.ActiveSpatialLayer == nil || fresh(v.ActiveSpatialLayer))
//@   ensures all_consumed_without_resolution [C19]: result1 == nil && !v.HasResolutionAndFramerate ==> result0 == len(payload)
//@ end
