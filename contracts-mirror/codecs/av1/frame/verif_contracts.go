// SPDX-FileCopyrightText: 2023 The Pion community <https://pion.ly>
// SPDX-License-Identifier: MIT

//go:build verif

// Contracts for the AV1 frame assembler of the deprecated AV1Packet path.
// Comment-only: compiled only under the verif tag, and then it adds no code.
package frame

// C09: ReadFrames never panics, whatever packet sequence it is fed.
//@ spec (*AV1).pushOBUElement
//@   requires f != nil && isFirstOBUFragment != nil
//@   modifies f.obuBuffer, f.obuBuffer[*cap], isFirstOBUFragment.*, obuList[*cap]
//@   ensures grows [C09]: len(result0) >= len(obuList) && len(result0) <= len(obuList) + 1
//@   ensures backing [C09]: fresh(result0) || (sameobj(result0, obuList) && off(result0) == off(obuList))
//@   ensures buffer [C09]: f.obuBuffer == nil || (sameobj(f.obuBuffer, old(f.obuBuffer)) && off(f.obuBuffer) == off(old(f.obuBuffer)) && len(f.obuBuffer) == len(old(f.obuBuffer)) && cap(f.obuBuffer) == cap(old(f.obuBuffer)))
//@ end
//@ spec (*AV1).ReadFrames
//@   requires f != nil && pkt != nil
//@   modifies f.obuBuffer, f.obuBuffer[*cap]
//@   loop 0: invariant built [C09]: rangeindex <= len(pkt.OBUElements) - 1 && len(OBUs) >= 0 && len(OBUs) <= rangeindex + 1 && fresh(OBUs) && (f.obuBuffer == nil || (sameobj(f.obuBuffer, old(f.obuBuffer)) && off(f.obuBuffer) == off(old(f.obuBuffer)) && len(f.obuBuffer) == len(old(f.obuBuffer)) && cap(f.obuBuffer) == cap(old(f.obuBuffer))))
//@   ensures ok [C09]: result1 == nil && len(result0) <= len(pkt.OBUElements)
//@ end
