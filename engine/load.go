package main

import (
	"fmt"
	"go/token"
	"go/types"
	"os"
	"path/filepath"
	"sort"
	"strings"

	"golang.org/x/tools/go/packages"
	"golang.org/x/tools/go/ssa"
	"golang.org/x/tools/go/ssa/ssautil"
)

const modPath = "github.com/pion/rtp"

type Prog struct {
	prog     *ssa.Program
	fset     *token.FileSet
	pkgs     map[string]*ssa.Package
	fns      map[string]*ssa.Function // local key: pkgpath::RelString ; external key: ::String()
	cs       *Contracts
	repoDir  string
	verifDir string
	tags     map[string]int
	globals  map[*ssa.Global]string
	funcIDs  map[*ssa.Function]string
	idFunc   map[string]*ssa.Function
	structs  []*types.Named
	ifaceObj map[string]Val
	ifaceTyp map[string]types.Type
	overlaid []string
	sentinel map[*ssa.Global]int
	notes    map[string]bool
	tier     string
	findings []*Finding
	constObjs map[*ssa.Global]string
}

func loadProg(repoDir, verifDir string) (*Prog, error) {
	p := &Prog{repoDir: repoDir, verifDir: verifDir, pkgs: map[string]*ssa.Package{}, fns: map[string]*ssa.Function{},
		tags: map[string]int{}, globals: map[*ssa.Global]string{}, funcIDs: map[*ssa.Function]string{}, idFunc: map[string]*ssa.Function{},
		ifaceObj: map[string]Val{}, ifaceTyp: map[string]types.Type{}, sentinel: map[*ssa.Global]int{}, notes: map[string]bool{}, constObjs: map[*ssa.Global]string{}}
	// contract files live in /repo behind the build tag; if one is missing
	// (e.g. a checkout without the hook commits) the mirror kept in /verif is overlaid.
	overlay := map[string][]byte{}
	mirror := filepath.Join(verifDir, "contracts-mirror")
	filepath.Walk(mirror, func(path string, info os.FileInfo, err error) error {
		if err != nil || info.IsDir() || !strings.HasSuffix(path, ".go") {
			return nil
		}
		rel, _ := filepath.Rel(mirror, path)
		dst := filepath.Join(repoDir, rel)
		if _, err := os.Stat(dst); err != nil {
			data, _ := os.ReadFile(path)
			overlay[dst] = data
			p.overlaid = append(p.overlaid, rel)
		}
		return nil
	})
	cfg := &packages.Config{Mode: packages.LoadAllSyntax, Dir: repoDir, BuildFlags: []string{"-tags=verif"}, Overlay: overlay,
		Env: append(os.Environ(), "GOFLAGS=-mod=mod", "GOPROXY=off", "GOSUMDB=off", "GOTOOLCHAIN=local")}
	pkgs, err := packages.Load(cfg, "./...")
	if err != nil {
		return nil, err
	}
	var errs []string
	packages.Visit(pkgs, nil, func(pk *packages.Package) {
		for _, e := range pk.Errors {
			errs = append(errs, e.Error())
		}
	})
	if len(errs) > 0 {
		return nil, fmt.Errorf("load errors:\n%s", strings.Join(errs, "\n"))
	}
	prog, spkgs := ssautil.AllPackages(pkgs, ssa.NaiveForm)
	prog.Build()
	p.prog = prog
	p.fset = prog.Fset
	dirs := map[string]string{}
	for i, sp := range spkgs {
		if sp == nil {
			continue
		}
		path := sp.Pkg.Path()
		if strings.HasPrefix(path, modPath) {
			p.pkgs[path] = sp
			if len(pkgs[i].GoFiles) > 0 {
				dirs[path] = filepath.Dir(pkgs[i].GoFiles[0])
			}
			for _, m := range sp.Members {
				if t, ok := m.(*ssa.Type); ok {
					if n, ok := t.Type().(*types.Named); ok {
						if _, ok := n.Underlying().(*types.Struct); ok {
							p.structs = append(p.structs, n)
						}
					}
				}
			}
		}
	}
	sort.Slice(p.structs, func(i, j int) bool { return p.structs[i].String() < p.structs[j].String() })
	for fn := range ssautil.AllFunctions(prog) {
		if fn.Pkg != nil && strings.HasPrefix(fn.Pkg.Pkg.Path(), modPath) {
			p.fns[fn.Pkg.Pkg.Path()+"::"+fn.RelString(fn.Pkg.Pkg)] = fn
		}
		p.fns["::"+fn.String()] = fn
	}
	// contracts: parse from the files actually used (repo or overlay)
	p.cs = &Contracts{Specs: map[string]*FuncSpec{}, Pures: map[string]*PureFn{}, Globals: map[string]string{}, ConstBytes: map[string][]byte{}}
	var paths []string
	for path := range dirs {
		paths = append(paths, path)
	}
	sort.Strings(paths)
	for _, path := range paths {
		files, _ := filepath.Glob(filepath.Join(dirs[path], "verif_*.go"))
		seen := map[string]bool{}
		for _, f := range files {
			seen[f] = true
		}
		for f := range overlay {
			if filepath.Dir(f) == dirs[path] && !seen[f] {
				files = append(files, f)
			}
		}
		sort.Strings(files)
		for _, f := range files {
			if strings.HasSuffix(f, "_test.go") {
				continue
			}
			var data []byte
			if d, ok := overlay[f]; ok {
				data = d
			} else {
				data, _ = os.ReadFile(f)
			}
			p.cs.Files = append(p.cs.Files, f)
			p.cs.parseFile(path, f, string(data))
		}
	}
	splitPures = p.cs.Pures
	// every inline contract (Root>callee, closures, helpers) must name functions that
	// exist: a misspelt key would silently verify the code without its invariants
	for key, sp := range p.cs.Specs {
		if !sp.Inline || sp.Trusted {
			continue
		}
		i := strings.Index(key, "::")
		if i < 0 {
			continue
		}
		pkg, ref := key[:i], key[i+2:]
		for _, part := range strings.Split(ref, ">") {
			if p.lookupFunc(pkg, part) == nil {
				return nil, fmt.Errorf("inline contract %q (%s:%d): no function %s in %s", ref, sp.File, sp.Line, part, pkg)
			}
		}
	}
	return p, nil
}

func (p *Prog) note(s string) { p.notes[s] = true }

func (p *Prog) tagOf(t types.Type) int {
	for {
		if a, ok := t.Underlying().(*types.Array); ok {
			t = a.Elem()
			continue
		}
		break
	}
	k := t.String()
	if _, ok := p.tags[k]; !ok {
		p.tags[k] = 10 + len(p.tags)
	}
	return p.tags[k]
}

func containsType(s types.Type, t types.Type, depth int) bool {
	if types.Identical(s, t) {
		return true
	}
	if depth > 6 {
		return false
	}
	switch u := s.Underlying().(type) {
	case *types.Struct:
		for i := 0; i < u.NumFields(); i++ {
			if containsType(u.Field(i).Type(), t, depth+1) {
				return true
			}
		}
	case *types.Array:
		return containsType(u.Elem(), t, depth+1)
	}
	return false
}

// containerTags: the allocation tags an object reachable through a *T may
// carry (T itself, or any struct of the module that embeds a T by value).
func (p *Prog) containerTags(t types.Type) []int {
	switch t.Underlying().(type) {
	case *types.Struct, *types.Basic:
	default:
		return nil
	}
	out := []int{p.tagOf(t)}
	for _, n := range p.structs {
		if !types.Identical(n, t) && containsType(n, t, 0) {
			out = append(out, p.tagOf(n))
		}
	}
	return out
}

func (p *Prog) globalObj(g *ssa.Global) string {
	if id, ok := p.globals[g]; ok {
		return id
	}
	id := fmt.Sprintf("%d", 1000000+len(p.globals))
	p.globals[g] = id
	return id
}

func (p *Prog) funcID(f *ssa.Function) string {
	if id, ok := p.funcIDs[f]; ok {
		return id
	}
	id := fmt.Sprintf("%d", 3000+len(p.funcIDs))
	p.funcIDs[f] = id
	p.idFunc[id] = f
	return id
}

// globalValue gives the value of a package-level variable where the engine
// knows it: error sentinels are distinct positive constants (no function
// other than init stores to them; checked by scanStores), zero-size values are
// empty.
func (p *Prog) globalValue(e *Exec, s *State, g *ssa.Global) (Val, bool) {
	t := g.Type().(*types.Pointer).Elem()
	if cells(t) == 0 {
		return Val{}, true
	}
	if bs, ok := p.cs.ConstBytes[g.Pkg.Pkg.Path()+"."+g.Name()]; ok {
		// a constant byte slice: its backing array is a fixed old object with known contents
		obj := fmt.Sprintf("%d", 1500000+len(p.constObjs))
		if o, have := p.constObjs[g]; have {
			obj = o
		} else {
			p.constObjs[g] = obj
		}
		p.note(fmt.Sprintf("package-level byte slice %s is treated as the constant % x (checked: no function stores to the variable; writes through it are not excluded)", g.Name(), bs))
		if e != nil {
			key := "constbytes|" + obj + "|" + e.root.name
			if !e.c.decls[key] {
				e.c.decls[key] = true
				for i, b := range bs {
					e.c.emit(fmt.Sprintf("(assert (= (select (select %s %s) %d) %d))", e.root.H0["u8"], obj, i, b), false)
				}
				e.c.emit(fmt.Sprintf("(assert (= (tag %s) %d))", obj, p.tagOf(types.Typ[types.Uint8])), false)
			}
		}
		n := fmt.Sprint(len(bs))
		return Val{obj, "0", n, n}, true
	}
	if types.IsInterface(t) && isErrorType(t) {
		id, ok := p.sentinel[g]
		if !ok {
			id = 100 + len(p.sentinel)
			p.sentinel[g] = id
		}
		return Val{fmt.Sprint(id)}, true
	}
	return nil, false
}

func isErrorType(t types.Type) bool {
	return types.Identical(t, types.Universe.Lookup("error").Type())
}

// specForIn: the contract of callee as inlined into root: "Root>callee" (loop
// invariants that speak about the root's variables) takes precedence.
func (p *Prog) specForIn(callee, root *ssa.Function) *FuncSpec {
	if callee.Pkg != nil && root != nil && root.Pkg != nil {
		key := callee.Pkg.Pkg.Path() + "::" + root.RelString(root.Pkg.Pkg) + ">" + callee.RelString(callee.Pkg.Pkg)
		if sp, ok := p.cs.Specs[key]; ok {
			return sp
		}
	}
	return p.specFor(callee)
}

func (p *Prog) specFor(fn *ssa.Function) *FuncSpec {
	if fn.Pkg != nil {
		if sp, ok := p.cs.Specs[fn.Pkg.Pkg.Path()+"::"+fn.RelString(fn.Pkg.Pkg)]; ok {
			return sp
		}
	}
	if sp, ok := p.cs.Specs["::"+fn.String()]; ok {
		return sp
	}
	return nil
}

func (p *Prog) lookupFunc(pkg, ref string) *ssa.Function {
	if fn, ok := p.fns[pkg+"::"+ref]; ok {
		return fn
	}
	return nil
}

// funcProps: the properties a function serves (clause tags + property directives).
func (p *Prog) funcProps(pkg, ref string) []string {
	set := map[string]bool{}
	if sp, ok := p.cs.Specs[pkg+"::"+ref]; ok {
		for _, cl := range sp.Ensures {
			for _, t := range cl.Props {
				set[t] = true
			}
		}
		for _, ls := range sp.Loops {
			for _, cl := range ls.Invs {
				for _, t := range cl.Props {
					set[t] = true
				}
			}
		}
	}
	for _, pd := range p.cs.Props {
		if pd.Pkg != pkg {
			continue
		}
		for _, f := range pd.Funcs {
			if f == ref {
				set[pd.Prop] = true
			}
		}
	}
	var out []string
	for k := range set {
		out = append(out, k)
	}
	sort.Strings(out)
	return out
}

type target struct {
	pkg, ref string
}

func (p *Prog) targetsFor(prop string) []target {
	set := map[target]bool{}
	for key := range p.cs.Specs {
		if strings.HasPrefix(key, "::") {
			continue
		}
		i := strings.Index(key, "::")
		t := target{key[:i], key[i+2:]}
		if p.cs.Specs[key].Inline {
			continue // verified inside each caller, with the caller's knowledge of its arguments
		}
		if p.cs.Specs[key].ThoroughOnly && p.tier != "thorough" {
			p.notes[key[strings.Index(key, "::")+2:]+": verified in the thorough tier only"] = true
			continue
		}
		for _, pr := range p.funcProps(t.pkg, t.ref) {
			if pr == prop {
				set[t] = true
			}
		}
	}
	for _, pd := range p.cs.Props {
		if pd.Prop == prop {
			for _, f := range pd.Funcs {
				set[target{pd.Pkg, f}] = true
			}
		}
	}
	var out []target
	for t := range set {
		out = append(out, t)
	}
	sort.Slice(out, func(i, j int) bool {
		if out[i].pkg != out[j].pkg {
			return out[i].pkg < out[j].pkg
		}
		return out[i].ref < out[j].ref
	})
	return out
}
