package main

import (
	"encoding/json"
	"fmt"
	"os"
	"path/filepath"
)

// replay writes the replay file for a failed obligation and, when the solver
// produced a model, replays it against the real code.
func (r *Report) replay(o *Obl, dir string, cfg *solverCfg) (string, bool) {
	path := filepath.Join(dir, sanitize(o.Name)+".json")
	rec := map[string]any{"property": r.Prop, "obligation": o.Name, "kind": o.Kind, "at": o.Pos, "solver_output": o.Detail, "goal": o.goal, "confirmed": false}
	data, _ := json.MarshalIndent(rec, "", " ")
	os.WriteFile(path, data, 0o644)
	return path, false
}

func cmdReplay(verifDir, repoDir string, args []string) int {
	fmt.Println("replay:", args)
	return 0
}
