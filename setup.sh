#!/bin/sh
# Build the verifier binary from sources on disk only (offline).
set -e
cd "$(dirname "$0")"
export GOFLAGS=-mod=mod GOPROXY=off GOSUMDB=off GOTOOLCHAIN=local
mkdir -p bin evidence replays
if [ -d engine ]; then (cd engine && go build -o ../bin/rtpverify .); fi
