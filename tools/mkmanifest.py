#!/usr/bin/env python3
"""Regenerates /verif/MANIFEST.json from the table below (claimed properties) and properties.jsonl."""
import json, subprocess
props = [json.loads(l) for l in open('/verif/properties.jsonl')]
TRUST = ("x/tools go/ssa v0.29.0 lowering; /verif/engine VC generator and SMT printer; z3 5.1.0 / cvc5 1.0.3 / z3 4.8.12 (unsat from any one accepted); "
         "Go type+memory safety (no unsafe, no data races on verified state, 64-bit int); trusted-spec contracts on external functions listed in the evidence file; "
         "termination only where a decreases clause or a range loop is checked. ")
claimed = {
 "C04": ("proof", "Header.MarshalSize/MarshalTo/Marshal and Packet.MarshalSize/MarshalTo/Marshal: a destination shorter than MarshalSize() gives (0, io.ErrShortBuffer) without panic; otherwise exactly MarshalSize() bytes are written, every one of them determined by the packet alone (fixed fields, CSRC words, extension word with profile and length, each element's header octet(s) and value, zero padding of the block, payload, zeroed RTP padding and count), whatever the destination held before, and every byte beyond them is untouched. All index/slice obligations of the encoders are discharged.",
          "Proved for headers with at most 2 extension elements (precondition of the contracts; the element loops are unrolled completely under it, the CSRC and padding loops carry invariants); extension values and payload must not alias the destination. At the Packet level the header clause covers fixed fields, CSRCs and the extension word (element bytes are established by Header.MarshalTo's contract and lie below the payload).", "§9 C04"),
 "C13": ("proof", "The LEB128 and OBU-header clauses of the property: WriteToLeb128 produces exactly the LEB128 encoding (length and every byte, loop unrolled completely: all 64-bit values), ReadLeb128 stops at the first byte without continuation bit / fails exactly when there is none, never panics, and ReadLeb128(WriteToLeb128(x) ++ rest) = (x, len) for every x < 2^56 (the property asks 2^32); ParseOBUHeader / Header.Marshal / ExtensionHeader are mutually inverse on all header octets and reject the forbidden bit and truncation.",
          "NOT decided yet: the payloader/depacketizer losslessness and the aggregation-header rules (W, Z, Y, layer separation) of AV1Payloader/AV1Depacketizer - those clauses have no contract; the value-of-decode lemma is bounded to encodings of at most 8 bytes (beyond that ReadLeb128's 64-bit accumulator overflows, outside the property's domain).", "§9 C13"),
 "C02": ("proof", "Header.Unmarshal, Packet.Unmarshal, GetExtension, GetExtensionIDs for every byte string and every (used or fresh) receiver: all index/slice/nil/make obligations discharged with inductive invariants for the CSRC and extension loops, termination of the extension loop, header length inside the input, header+payload+padding = input length, payload and every extension value are sub-slices of the input (object identity and offsets), input bytes untouched (frame), fixed fields / CSRC list / extension profile / padding size determined by the input alone (no dependence on the receiver's previous state).",
          "Not covered by a checked obligation: that the *list* of extension elements decoded into a reused receiver equals that of a fresh one (needs the RFC grammar as a spec function; the slice is reset and every element is proved to come from the input). Known finding recorded: reserved id 15 leaves the header length inside the extension block.", "§9 C02"),
 "C11": ("proof", "VP8Packet.Unmarshal is proved against a descriptor specification written from the RFC 7741 diagram (pure functions for X/I/L/T/K/M, field offsets and descriptor length): every field equals the encoded bits for all flag combinations and field values, the returned bytes are the input after the descriptor, rejection exactly when the descriptor is cut short, nil rejected; IsPartitionHead is bit 4 of octet 0. VP8Payloader.Payload: inductive invariant and postconditions give fragment sizes (<= MTU, non-empty), S bit on the first fragment only, PID 0, picture-id form by value (7-bit below 128, 15-bit from 128) on every fragment, fragment payloads equal to consecutive windows of the frame, picture id advancing by one modulo 2^15; termination by a decreases clause.",
          "The lossless statement is the conjunction of the payloader postconditions (fragment j carries bytes [j*m, ...) after a descriptor of vp8Hdr bytes) and the decoder contract (returns the bytes after the descriptor); the composition is not a separate lemma function. Precondition: pictureID < 2^15 (established by the payloader itself).", "§9 C11"),
 "C16": ("proof", "G711/G722 Payload carry an inductive loop invariant (consumed offset = len(out)*mtu; every fragment so far is a fresh slice of exactly mtu bytes equal to its input window) and postconditions: fragments concatenate to the input, all but the last have exactly MTU bytes, the last holds the 1..MTU remaining bytes, nil input or MTU 0 give none; termination by a decreases clause. Opus: one fresh fragment equal to the input; OpusPacket.Unmarshal passthrough / errNilPacket / errShortPacket; partition head and tail constant true. Unbounded in input length and MTU.",
          "No trusted contracts.", "§9 C16"),
 "C20": ("proof", "Header.Clone and Packet.Clone: every bool/integer field equal (quantified over the struct's field list from go/types, so a forgotten new field fails), CSRC/extension list/extension values/payload equal in length and contents and freshly allocated (or nil exactly when the original is nil), proved with an inductive invariant over the extension loop for any number of extensions. Independence (mutating one never changes the other) is the consequence that everything mutable reachable from the clone is fresh; that last step is an argument over the freshness postconditions, not a separate obligation.",
          "No trusted contracts. Deprecated Packet.Raw is outside the equality (no operation writes it).", "§9 C20"),
 "C17": ("proof", "Every Marshal/Unmarshal of the five fixed-size extension codecs carries a contract transcribing the specification's bit layout (bits/be16/be24/be64 over exact integers); "
          "all safety, frame and postcondition obligations are discharged for all inputs (loop-free code, so the proof is complete over the entire value and length domains); round trips are ghost lemma functions verified against the callee contracts only.",
          "No trusted contracts. Integers exact (Int + explicit wrap), bit operations by bit-slice normal form.", "§9 C17"),
 "C18": ("proof", "toNtpTime/toTime and the AbsCaptureTime/AbsSendTime constructors and accessors have contracts defining them as exact 32.32 fixed-point functions of UnixNano; the three statements of the property (1 ns capture-time round trip over 1970..2036, clock offset within 1 ns with sign for |d| < 2^31 s, Estimate within 2^-18 s + 1 ns for delays in [0, 64 s - 2^-18 s)) are lemma functions proved from those contracts over the whole continuum, wrap compensation included.",
          "Trusted: time.Time.UnixNano and time.Unix relate a time.Time to its nanosecond count (ghost function unixnano). Receive instants are also required to lie before the end of NTP era 0.", "§9 C18"),
 "C07": ("proof", "Sequential specification of the counter (ghost T = rollOverCount*65536+sequenceNumber advances by exactly one per call; value returned is T mod 2^16; rollover count equals the number of zeros issued) and the lock discipline (both fields are read or written only while the mutex is held, checked at every access as a guard obligation; mutex released on return) are discharged; first values of fixed and random sequencers are lemma functions. "
          "What is NOT machine-checked: the step from mutual exclusion + sequential spec to linearizability over all interleavings; it rests on the trusted sync.Mutex contract (schedules are outside what per-function contracts decide).",
          "Trusted: sync.Mutex.Lock/Unlock (mutual exclusion, ghost state field), randutil Intn range. rollOverCount < 2^64-1 is a precondition.", "§9 C07"),
}
checks = []
for pid, (cat, text, note, ref) in claimed.items():
    checks.append({
        "property_id": pid,
        "quick_cmd": f"bin/rtpverify check {pid} --tier quick",
        "thorough_cmd": f"bin/rtpverify check {pid} --tier thorough",
        "evidence_file": f"/verif/evidence/{pid}.json",
        "replay_cmd_template": "bin/rtpverify replay {path}",
        "engine": "rtpverify",
        "level_claimed": {"category": cat, "text": text, "design_ref": ref},
        "level_note": TRUST + note,
        "technique": "contract-based deductive verification: VCs generated from go/ssa of the real functions, //@ contracts in verif_contracts.go, obligations discharged by z3/cvc5",
    })
hooks_commits = subprocess.run("git -C /repo log --format=%h --grep='^verif:'", shell=True, capture_output=True, text=True).stdout.split()
m = {
 "version": 1,
 "setup_cmd": "./setup.sh",
 "hooks": {"guard": "verif", "enable": "-tags verif (contract files verif_contracts.go: //@ comments and ghost lemma functions, compiled only under the tag)",
           "baseline_off_cmd": "cd /repo && GOFLAGS=-mod=mod GOPROXY=off GOSUMDB=off GOTOOLCHAIN=local go test -vet=off -count=1 ./...",
           "source_commits": hooks_commits, "add_only": True},
 "engines": [{"name": "rtpverify", "path": "/verif/engine", "serves_properties": sorted(claimed), "kind_free_text": "weakest-precondition/symbolic-execution VC generator over go/ssa (NaiveForm) of the real code, Gobra-style //@ contracts, SMT portfolio z3-new/cvc5/z3"}],
 "checks": checks,
 "notes": "see DESIGN.md; known findings and fixed defects in known_findings.json; seeded must-fail corpus in seeded/",
 "not_applicable": [{"property_id": p["id"], "reason": "not reached yet: contracts for this property are still being written (engine exists; see DESIGN.md §12)"} for p in props if p["id"] not in claimed],
}
json.dump(m, open('/verif/MANIFEST.json', 'w'), indent=1)
print("claimed:", sorted(claimed))
