#!/bin/sh
# Must-fail corpus (about two hours for all 52 seeds; nothing else may use /repo meanwhile): applies every seeded change under /verif/seeded to /repo (one at a
# time, restored afterwards) and runs the quick check of the property expected to
# catch it (seeded/EXPECTED.txt: "<seed> <property|missed>"). Prints one line per seed
# and a summary; exit 1 if a seed expected to be detected was missed.
cd /verif
rc=0
out=seeded/RESULTS.txt
: > $out
while read seed prop; do
  [ -z "$seed" ] && continue
  case "$seed" in \#*) continue;; esac
  if [ "$prop" = "missed" ]; then
    echo "$seed expected-miss (no contract covers the changed function)" | tee -a $out
    continue
  fi
  r=$(tools/seedtest.sh $seed $prop 2>&1 | head -1)
  echo "$r" | tee -a $out
  case "$r" in *DETECTED*) ;; *) rc=1;; esac
done < seeded/EXPECTED.txt
exit $rc
