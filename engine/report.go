package main

import (
	"encoding/json"
	"fmt"
	"os"
	"path/filepath"
	"sort"
	"strings"
	"time"
)

type Report struct {
	Prop, Tier string
	Seed       int
	Start      time.Time
	VerifDir   string
	prog       *Prog
	frs        []*FuncResult
	all        []*Obl
	failed     []*Obl
	known      map[int]bool
	findings   []*Finding
	engineErrs []string
	tLoad      float64
	tGen       float64
	verbose    bool
	notRun     int
}

var baseAssumptions = []string{
	"x/tools go/packages, go/types, go/ssa v0.29.0 lower the source to SSA faithfully and the gc compiler implements the same semantics",
	"this engine's VC generator and SMT printer (guarded by vacuity canaries on every run, the obligation baselines, and the must-fail corpus under /verif/seeded (tools/selftest.sh))",
	"solver soundness: an unsat from any one of z3 5.1.0, cvc5 1.0.3, z3 4.8.12 is accepted; sat-vs-unsat disagreement is an engine error",
	"Go type and memory safety: no package unsafe in the verified code, no data races on the verified state, int is 64 bits, slices hold at most 2^48 elements, no out-of-memory, no stack overflow",
	"machine integers are modelled exactly (mathematical Int terms with explicit wrap-around at the type's width); nothing is treated as unbounded",
	"objects reached through differently typed references are distinct regions (allocation tag per element/struct type); same-typed aliasing is not excluded",
	"pointer receivers are non-nil",
	"termination is proved only where a decreases clause is checked or the loop is a range loop",
}

func (r *Report) finish(cfg *solverCfg) int {
	if r.known == nil {
		r.known = map[int]bool{}
	}
	wall := time.Since(r.Start).Seconds()
	nOK, nKnown := 0, 0
	byBackend := map[string]int{}
	solverTime := 0.0
	vac := 0
	byKind := map[string]int{}
	nBounded, nBoundedOK := 0, 0
	boundSet := map[string]bool{}
	for _, o := range r.all {
		solverTime += o.Secs
		byKind[o.Kind]++
		if o.Bounded != "" {
			nBounded++
			boundSet[o.Bounded] = true
			if o.Verdict == "discharged" || o.Verdict == "ok" || o.Verdict == "known" {
				nBoundedOK++
			}
		}
		switch o.Verdict {
		case "discharged":
			nOK++
			byBackend[o.Backend]++
		case "ok":
			nOK++
			vac++
		case "known":
			nKnown++
			byBackend[o.Backend]++
		}
	}
	// replay / violation lines
	exit := 0
	violations := 0
	repDir := filepath.Join(r.VerifDir, "replays", r.Prop)
	os.MkdirAll(repDir, 0o755)
	seenBase := map[string]bool{}
	for _, o := range r.failed {
		bn := baseName(o.Name)
		if seenBase[bn] && !r.verbose {
			continue
		}
		seenBase[bn] = true
		violations++
		path, confirmed := r.replay(o, repDir, cfg)
		suffix := ""
		if !confirmed {
			suffix = " no-failing-input-found"
		}
		fmt.Printf("VIOLATION property=%s replay=%s obligation=%s (%s)%s\n", r.Prop, path, o.Name, o.Detail, suffix)
		exit = 1
	}
	var kfLines []string
	var ks []int
	for k := range r.known {
		ks = append(ks, k)
	}
	sort.Ints(ks)
	for _, k := range ks {
		f := r.findings[k]
		line := fmt.Sprintf("KNOWN-FINDING: property=%s %s [obligation %s, when %s]", r.Prop, f.What, f.Obligation, f.When)
		fmt.Println(line)
		kfLines = append(kfLines, line)
	}
	for _, e := range r.engineErrs {
		fmt.Println("ENGINE-ERROR", e)
	}
	// evidence
	var fns, inl, trusted []string
	seenI, seenT := map[string]bool{}, map[string]bool{}
	for _, fr := range r.frs {
		fns = append(fns, fr.Name)
		for _, x := range fr.Inlined {
			if !seenI[x] {
				seenI[x] = true
				inl = append(inl, x)
			}
		}
		for _, x := range fr.Trusted {
			if !seenT[x] {
				seenT[x] = true
				trusted = append(trusted, x)
			}
		}
	}
	sort.Strings(inl)
	sort.Strings(trusted)
	var samples []any
	for i, o := range r.all {
		if o.Kind == "ensures" || o.Kind == "inv-step" || (i%97 == 0) {
			g := o.goal
			if len(g) > 300 {
				g = g[:300] + "…"
			}
			samples = append(samples, map[string]any{"obligation": o.Name, "kind": o.Kind, "at": o.Pos, "verdict": o.Verdict, "backend": o.Backend, "secs": round3(o.Secs), "goal": g})
			if len(samples) >= 12 {
				break
			}
		}
	}
	if len(samples) == 0 && len(r.all) > 0 {
		o := r.all[0]
		samples = append(samples, map[string]any{"obligation": o.Name, "verdict": o.Verdict})
	}
	assumptions := append([]string{}, baseAssumptions...)
	for _, t := range trusted {
		assumptions = append(assumptions, "trusted contract (assumed, never verified): "+t)
	}
	var notes []string
	for n := range r.prog.notes {
		notes = append(notes, n)
	}
	sort.Strings(notes)
	assumptions = append(assumptions, notes...)
	if len(r.prog.overlaid) > 0 {
		assumptions = append(assumptions, "contract files missing from /repo were overlaid from /verif/contracts-mirror: "+strings.Join(r.prog.overlaid, ", "))
	}
	// preconditions of the verified functions: the inputs outside them are not covered
	var preconds []string
	seenPre := map[string]bool{}
	for _, fr := range r.frs {
		if fr.Spec == nil {
			continue
		}
		for _, rq := range fr.Spec.Requires {
			line := fr.Spec.Ref + ": requires " + rq.Src
			if !seenPre[line] {
				seenPre[line] = true
				preconds = append(preconds, line)
			}
		}
		for _, cs := range fr.Spec.Cases {
			line := fr.Spec.Ref + ": case " + cs.Label + ": " + cs.Src
			if !seenPre[line] {
				seenPre[line] = true
				preconds = append(preconds, line)
			}
		}
		if fr.Spec.Unroll > 0 {
			line := fmt.Sprintf("%s: loops of inlined callees unrolled %d times (complete: %v)", fr.Spec.Ref, fr.Spec.Unroll, fr.Spec.UnrollComplete)
			if !seenPre[line] {
				seenPre[line] = true
				preconds = append(preconds, line)
			}
		}
	}
	level := "proof"
	var bounds []string
	for b := range boundSet {
		bounds = append(bounds, b)
	}
	sort.Strings(bounds)
	var failedNames []string
	for _, o := range r.failed {
		failedNames = append(failedNames, o.Name+": "+o.Detail)
	}
	ev := map[string]any{
		"property_id": r.Prop,
		"tier":        r.Tier,
		"seed":        r.Seed,
		"level":       level,
		"wall_s":      round3(wall),
		"violations":  violations,
		"assumptions": assumptions,
		"coverage": map[string]any{
			"obligations":               len(r.all) - nBounded,
			"discharged":                nOK + nKnown - nBoundedOK,
			"not_run_after_failure":     r.notRun,
			"bounded_obligations":       nBounded,
			"bounded_discharged":        nBoundedOK,
			"bounds":                    bounds,
			"discharged_unrestricted":   nOK,
			"discharged_outside_known_findings": nKnown,
			"failed":                    failedNames,
			"by_kind":                   byKind,
			"by_backend":                byBackend,
			"vacuity_checks":            vac,
			"solver_time_s":             round3(solverTime),
			"load_s":                    round3(r.tLoad),
			"vcgen_s":                   round3(r.tGen),
			"functions_under_contract":  fns,
			"preconditions_assumed":     preconds,
			"inlined_callees":           inl,
			"trusted_contracts":         trusted,
			"known_findings":            kfLines,
			"engine_errors":             r.engineErrs,
			"contract_files":            r.prog.cs.Files,
			"samples":                   samples,
			"checker_cmd":               fmt.Sprintf("bin/rtpverify check %s --tier %s", r.Prop, r.Tier),
			"trusted_base":              []string{"golang.org/x/tools v0.29.0 (go/packages, go/types, go/ssa)", "/verif/engine VC generator", "z3 5.1.0", "cvc5 1.0.3", "z3 4.8.12"},
			"explanation":               "contract-based deductive verification: VCs generated from the SSA of the real functions in /repo, contracts from verif_contracts.go, each obligation discharged by an SMT solver for all inputs; integers exact (Int with explicit wrap)",
		},
	}
	os.MkdirAll(filepath.Join(r.VerifDir, "evidence"), 0o755)
	data, _ := json.MarshalIndent(ev, "", " ")
	os.WriteFile(filepath.Join(r.VerifDir, "evidence", r.Prop+".json"), data, 0o644)
	if nBounded > 0 {
		fmt.Printf("%s: %d of the obligations are BOUNDED (not counted as proved): %d discharged within the bound\n", r.Prop, nBounded, nBoundedOK)
	}
	fmt.Printf("%s: %d obligations, %d discharged, %d known-finding-restricted, %d failed; functions %d; load %.1fs vcgen %.1fs solver-cpu %.1fs wall %.1fs\n",
		r.Prop, len(r.all), nOK, nKnown, len(r.failed), len(r.frs), r.tLoad, r.tGen, solverTime, time.Since(r.Start).Seconds())
	if r.verbose {
		for _, o := range r.all {
			fmt.Printf("  %-12s %-80s %s %.2fs %s\n", o.Verdict, o.Name, o.Backend, o.Secs, o.Pos)
		}
	}
	if r.notRun > 0 && exit == 0 {
		// obligations left undecided without a reported failure: never a pass
		fmt.Printf("ENGINE-ERROR %d obligations were not run although no failure was reported\n", r.notRun)
		return 2
	}
	if len(r.engineErrs) > 0 && exit == 0 {
		return 2
	}
	return exit
}

func round3(x float64) float64 { return float64(int(x*1000+0.5)) / 1000 }
