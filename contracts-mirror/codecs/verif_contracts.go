// SPDX-FileCopyrightText: 2023 The Pion community <https://pion.ly>
// SPDX-License-Identifier: MIT

//go:build verif

// Contracts (machine-checked by /verif/engine) for package codecs. Only
// compiled with the build tag "verif"; nothing here is part of the library.

package codecs

// ===== C16 (and the C08 clauses of the same functions): audio payloaders =====

// fragsOf: every fragment out[j], j < n, is a fresh, non-nil byte slice of
// exactly m bytes; fragBytes: it holds the input window [j*m, (j+1)*m).
//@ pure bool fragsOf(out, n, src, m) = forall j :: 0 <= j && j < n ==> out[j] != nil && fresh(out[j]) && off(out[j]) == 0 && len(out[j]) == m
//@ pure bool fragBytes(out, n, src, m) = forall j, q :: 0 <= j && j < n && 0 <= q && q < m ==> out[j][q] == src[j*m + q]

//@ spec (*G711Payloader).Payload
//@   ensures empty [C16,C08]: (mtu == 0 || payload == nil) ==> len(result0) == 0
//@   ensures count [C16]: mtu > 0 && payload != nil ==> len(result0) >= 1
//@   ensures full [C16,C08]: mtu > 0 && payload != nil ==> fragsOf(result0, len(result0) - 1, payload, int(mtu))
//@   ensures full_bytes [C16,C08]: mtu > 0 && payload != nil ==> fragBytes(result0, len(result0) - 1, payload, int(mtu))
//@   ensures last [C16,C08]: mtu > 0 && payload != nil ==> fresh(result0[len(result0)-1]) && len(result0[len(result0)-1]) == len(payload) - (len(result0)-1)*int(mtu) && eqseq(result0[len(result0)-1], 0, payload, (len(result0)-1)*int(mtu), len(result0[len(result0)-1]))
//@   ensures last_bound [C16,C08]: mtu > 0 && payload != nil ==> len(result0[len(result0)-1]) <= int(mtu) && (len(payload) > 0 ==> len(result0[len(result0)-1]) >= 1)
//@   ensures owned [C08]: fresh(result0)
//@   loop 0: invariant consumed [C16,C08]: sameobj(payload, old(payload)) && off(payload) == off(old(payload)) + len(out)*int(mtu) && len(payload) == len(old(payload)) - len(out)*int(mtu) && len(payload) >= 0 && mtu > 0 && (len(old(payload)) > 0 ==> len(payload) > 0)
//@   loop 0: invariant out_fresh [C16,C08]: fresh(out) && len(out) >= 0
//@   loop 0: invariant frags [C16,C08]: fragsOf(out, len(out), old(payload), int(mtu))
//@   loop 0: invariant frag_bytes [C16,C08]: fragBytes(out, len(out), old(payload), int(mtu))
//@   loop 0: decreases len(payload)
//@ end

//@ spec (*G722Payloader).Payload
//@   ensures empty [C16,C08]: (mtu == 0 || payload == nil) ==> len(result0) == 0
//@   ensures count [C16]: mtu > 0 && payload != nil ==> len(result0) >= 1
//@   ensures full [C16,C08]: mtu > 0 && payload != nil ==> fragsOf(result0, len(result0) - 1, payload, int(mtu))
//@   ensures full_bytes [C16,C08]: mtu > 0 && payload != nil ==> fragBytes(result0, len(result0) - 1, payload, int(mtu))
//@   ensures last [C16,C08]: mtu > 0 && payload != nil ==> fresh(result0[len(result0)-1]) && len(result0[len(result0)-1]) == len(payload) - (len(result0)-1)*int(mtu) && eqseq(result0[len(result0)-1], 0, payload, (len(result0)-1)*int(mtu), len(result0[len(result0)-1]))
//@   ensures last_bound [C16,C08]: mtu > 0 && payload != nil ==> len(result0[len(result0)-1]) <= int(mtu) && (len(payload) > 0 ==> len(result0[len(result0)-1]) >= 1)
//@   ensures owned [C08]: fresh(result0)
//@   loop 0: invariant consumed [C16,C08]: sameobj(payload, old(payload)) && off(payload) == off(old(payload)) + len(out)*int(mtu) && len(payload) == len(old(payload)) - len(out)*int(mtu) && len(payload) >= 0 && mtu > 0 && (len(old(payload)) > 0 ==> len(payload) > 0)
//@   loop 0: invariant out_fresh [C16,C08]: fresh(out) && len(out) >= 0
//@   loop 0: invariant frags [C16,C08]: fragsOf(out, len(out), old(payload), int(mtu))
//@   loop 0: invariant frag_bytes [C16,C08]: fragBytes(out, len(out), old(payload), int(mtu))
//@   loop 0: decreases len(payload)
//@ end

// Opus is passed through: one fragment equal to, and not aliasing, the input.
//@ spec (*OpusPayloader).Payload
//@   ensures nilinput [C16,C08]: payload == nil ==> len(result0) == 0
//@   ensures one [C16,C08]: payload != nil ==> len(result0) == 1 && fresh(result0) && fresh(result0[0]) && result0[0] != nil && len(result0[0]) == len(payload) && eqseq(result0[0], 0, payload, 0, len(payload))
//@ end

//@ spec (*OpusPacket).Unmarshal
//@   modifies p.*
//@   ensures nilpacket [C16]: packet == nil ==> errIs(err, errNilPacket) && len(result0) == 0
//@   ensures empty [C16]: packet != nil && len(packet) == 0 ==> errIs(err, errShortPacket) && len(result0) == 0
//@   ensures passthrough [C16]: len(packet) > 0 ==> err == nil && sameobj(result0, packet) && off(result0) == off(packet) && len(result0) == len(packet)
//@   ensures kept [C16,C09]: len(packet) > 0 ==> sameobj(p.Payload, packet) && off(p.Payload) == off(packet) && len(p.Payload) == len(packet)
//@ end
//@ spec (*audioDepacketizer).IsPartitionHead
//@   ensures always [C16,C09]: result0
//@ end
//@ spec (*audioDepacketizer).IsPartitionTail
//@   ensures always [C16,C09]: result0
//@ end
//@ spec (*OpusPartitionHeadChecker).IsPartitionHead
//@   ensures always [C16]: result0
//@ end
