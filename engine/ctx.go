package main

import (
	"fmt"
	"math/big"
	"strings"
)

// Ctx accumulates one SMT-LIB script per verified function: declarations,
// hash-consed definitions and assumptions, in program order. An obligation
// remembers how many lines precede it, so its query is "prefix + (not goal)".
type Ctx struct {
	lines []string
	n     int
	cons  map[string]string // hash-consing: "sort|expr" -> name
	obls  []*Obl
	raw   int                 // >0: inside a quantifier body, build raw terms (no define-fun, no assumptions)
	maxv  map[string]*big.Int // known upper bound (term known >= 0)
	lowz  map[string]int      // known trailing zero bits
	decls map[string]bool
	reps   map[string]sliceRep
	splits map[string][2]chunk
	refine map[string]sliceRep
	uOf    map[string]string // signed term -> its unsigned (two's complement) representation
}

// Obl is one proof obligation.
type Obl struct {
	Name   string   // stable name: Func:kind:label[#ordinal]
	Func   string   // function under contract
	Kind   string   // safety | ensures | requires | inv-init | inv-step | decreases | frame | guard | vacuity
	Label  string   // clause label or safety kind
	Props  []string // property ids served
	Pos    string   // file:line (informational only)
	at     int
	goal   string
	ctx    *Ctx
	Expect string // "unsat" normally; "sat" for vacuity canaries
	// results
	Verdict string
	Backend string
	Secs    float64
	Detail  string
	Bounded string // non-empty: bounded obligation, with the bound
	rootFn  string
}

func newCtx() *Ctx {
	c := &Ctx{cons: map[string]string{}, maxv: map[string]*big.Int{}, lowz: map[string]int{}, decls: map[string]bool{}, reps: map[string]sliceRep{}, splits: map[string][2]chunk{}, refine: map[string]sliceRep{}, uOf: map[string]string{}}
	c.lines = append(c.lines,
		"(define-sort HP () (Array Int (Array Int Int)))",
		"(declare-fun tag (Int) Int)",
		"(declare-fun wraps (Int) Int)")
	return c
}

func (c *Ctx) fresh(sort, hint string) string {
	c.n++
	name := fmt.Sprintf("%s!%d", sanitize(hint), c.n)
	c.lines = append(c.lines, fmt.Sprintf("(declare-const %s %s)", name, sort))
	return name
}

func (c *Ctx) declareFun(name string, nargs int, ret string) {
	if c.decls[name] {
		return
	}
	c.decls[name] = true
	args := strings.TrimSpace(strings.Repeat("Int ", nargs))
	c.lines = append(c.lines, fmt.Sprintf("(declare-fun %s (%s) %s)", name, args, ret))
}

func (c *Ctx) declareConst(name, sort string, extra ...string) {
	if c.decls[name] {
		return
	}
	c.decls[name] = true
	c.lines = append(c.lines, fmt.Sprintf("(declare-const %s %s)", name, sort))
	c.lines = append(c.lines, extra...)
}

func sanitize(s string) string {
	return strings.Map(func(r rune) rune {
		if r >= 'a' && r <= 'z' || r >= 'A' && r <= 'Z' || r >= '0' && r <= '9' || r == '_' {
			return r
		}
		return '_'
	}, s)
}

func isAtom(e string) bool { return !strings.HasPrefix(e, "(") }

func (c *Ctx) def(sort, expr string) string {
	if isAtom(expr) || c.raw > 0 {
		return expr
	}
	key := sort + "|" + expr
	if n, ok := c.cons[key]; ok {
		return n
	}
	c.n++
	name := fmt.Sprintf("t!%d", c.n)
	c.lines = append(c.lines, fmt.Sprintf("(define-fun %s () %s %s)", name, sort, expr))
	c.cons[key] = name
	return name
}

func (c *Ctx) I(format string, a ...any) string { return c.def("Int", fmt.Sprintf(format, a...)) }
func (c *Ctx) B(format string, a ...any) string { return c.def("Bool", fmt.Sprintf(format, a...)) }
func (c *Ctx) H(format string, a ...any) string { return c.def("HP", fmt.Sprintf(format, a...)) }

func (c *Ctx) assume(pc, cond string) {
	if cond == "true" || c.raw > 0 {
		return
	}
	if pc == "true" {
		c.lines = append(c.lines, fmt.Sprintf("(assert %s)", cond))
	} else {
		c.lines = append(c.lines, fmt.Sprintf("(assert (=> %s %s))", pc, cond))
	}
}

// oblige records an obligation and (as every deductive verifier does) assumes
// it afterwards.
func (c *Ctx) oblige(o *Obl, pc, cond string) *Obl {
	o.at = len(c.lines)
	o.goal = fmt.Sprintf("(=> %s %s)", pc, cond)
	o.ctx = c
	if o.Expect == "" {
		o.Expect = "unsat"
	}
	c.obls = append(c.obls, o)
	if o.Expect == "unsat" {
		c.assume(pc, cond)
	}
	return o
}

func (c *Ctx) and(a, b string) string {
	if a == "true" {
		return b
	}
	if b == "true" {
		return a
	}
	if a == "false" || b == "false" {
		return "false"
	}
	return c.B("(and %s %s)", a, b)
}

func (c *Ctx) or(a, b string) string {
	if a == "false" {
		return b
	}
	if b == "false" {
		return a
	}
	if a == "true" || b == "true" {
		return "true"
	}
	return c.B("(or %s %s)", a, b)
}

func (c *Ctx) not(a string) string {
	switch a {
	case "true":
		return "false"
	case "false":
		return "true"
	}
	return c.B("(not %s)", a)
}

func (c *Ctx) implies(a, b string) string {
	if a == "true" {
		return b
	}
	if a == "false" || b == "true" {
		return "true"
	}
	return c.B("(=> %s %s)", a, b)
}

func (c *Ctx) ite(sort, cond, a, b string) string {
	if a == b {
		return a
	}
	if cond == "true" {
		return a
	}
	if cond == "false" {
		return b
	}
	return c.def(sort, fmt.Sprintf("(ite %s %s %s)", cond, a, b))
}

func pow2(n int) *big.Int { return new(big.Int).Lsh(big.NewInt(1), uint(n)) }

func lit(v *big.Int) string {
	if v.Sign() < 0 {
		return "(- " + new(big.Int).Neg(v).String() + ")"
	}
	return v.String()
}

// wrap an Int term into the range of an integer leaf (exact machine semantics)
func (c *Ctx) wrap(e string, l leaf) string {
	m := pow2(l.bits)
	if !l.signed {
		if mx := c.getMax(e); mx != nil && mx.Cmp(m) < 0 {
			return e // known to lie in [0, 2^bits): no wrap
		}
		if _, ok := isLit(e); ok || l.bits < 64 {
			r := c.I("(mod %s %s)", e, m)
			c.setMax(r, new(big.Int).Sub(m, big.NewInt(1)))
			return r
		}
		// the in-range case first: lets the solver split instead of reasoning through mod
		r := c.I("(ite (and (<= 0 %s) (< %s %s)) %s (mod %s %s))", e, e, m, e, e, m)
		c.setMax(r, new(big.Int).Sub(m, big.NewInt(1)))
		return r
	}
	h := pow2(l.bits - 1)
	if l.bits < 64 {
		return c.I("(- (mod (+ %s %s) %s) %s)", e, h, m, h)
	}
	return c.I("(ite (and (<= (- %s) %s) (< %s %s)) %s (- (mod (+ %s %s) %s) %s))", h, e, e, h, e, e, h, m, h)
}

func (c *Ctx) inRange(e string, l leaf) string {
	switch l.kind {
	case "bool":
		return c.B("(or (= %s 0) (= %s 1))", e, e)
	case "ref":
		return c.B("(<= 0 %s)", e)
	case "flt":
		return "true"
	}
	if !l.signed {
		return c.B("(and (<= 0 %s) (< %s %s))", e, e, pow2(l.bits))
	}
	h := pow2(l.bits - 1)
	return c.B("(and (<= (- %s) %s) (< %s %s))", h, e, e, h)
}

func (c *Ctx) setMax(t string, m *big.Int) {
	if c.raw > 0 {
		return
	}
	if old, ok := c.maxv[t]; !ok || m.Cmp(old) < 0 {
		c.maxv[t] = m
	}
}

func (c *Ctx) getMax(t string) *big.Int {
	if v, ok := new(big.Int).SetString(t, 10); ok && v.Sign() >= 0 {
		return v
	}
	return c.maxv[t]
}

func (c *Ctx) getLowz(t string) int {
	if v, ok := new(big.Int).SetString(t, 10); ok && v.Sign() > 0 {
		return int(v.TrailingZeroBits())
	}
	return c.lowz[t]
}
