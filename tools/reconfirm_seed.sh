#!/bin/sh
# usage: tools/reconfirm_seed.sh <seed-name> [new-patch-file]
# Re-confirms a seeded change against /repo's current HEAD (after fix: commits) in a
# scratch worktree: demo passes without the patch, whole suite passes with it,
# demo fails with it. With a second argument the seed's patch.diff is replaced by
# that file first (a patch rebased onto HEAD). The scratch worktree is removed.
name=$1
sd=/verif/seeded/$name
wt=/tmp/reconfirm.$$
export GOFLAGS=-mod=mod GOPROXY=off GOSUMDB=off GOTOOLCHAIN=local
patch=${2:-$sd/patch.diff}
pkg=$(python3 -c "import json;print(json.load(open('$sd/meta.json')).get('demo_pkg_dir','.'))")
git -C /repo worktree add -q --detach $wt HEAD || exit 3
cleanup() { git -C /repo worktree remove --force $wt; }
cd $wt
cp $sd/zz_seed_demo_test.go $pkg/zz_seed_demo_test.go
if ! go test -vet=off -count=1 -run Seed ./$pkg >/tmp/reconfirm.out 2>&1; then echo "$name: demo FAILS on HEAD without the patch"; tail -5 /tmp/reconfirm.out; cleanup; exit 1; fi
rm $pkg/zz_seed_demo_test.go
if ! git apply $patch; then echo "$name: patch does not apply to HEAD"; cleanup; exit 1; fi
if ! (go build ./... && go test -vet=off -count=1 ./...) >/tmp/reconfirm.out 2>&1; then echo "$name: suite FAILS with the patch"; tail -5 /tmp/reconfirm.out; cleanup; exit 1; fi
cp $sd/zz_seed_demo_test.go $pkg/zz_seed_demo_test.go
if go test -vet=off -count=1 -run Seed ./$pkg >/tmp/reconfirm.out 2>&1; then echo "$name: demo PASSES with the patch (not a violation any more)"; cleanup; exit 1; fi
rm $pkg/zz_seed_demo_test.go
if [ -n "$2" ]; then git diff > $sd/patch.diff; python3 - <<EOF
import json
m=json.load(open('$sd/meta.json'))
m['rebased_onto']='$(git -C /repo rev-parse --short HEAD)'
m.setdefault('what_i_ran',[]).append('re-confirmed after rebasing the patch onto HEAD $(git -C /repo rev-parse --short HEAD): demo passes without, suite passes with, demo fails with')
json.dump(m,open('$sd/meta.json','w'),indent=1)
EOF
fi
echo "$name: CONFIRMED on HEAD $(git -C /repo rev-parse --short HEAD)"
cleanup
