package main

import (
	"fmt"
	"go/types"
)

// leaf kinds: one heap per kind
type leaf struct {
	kind   string // u8 u16 u32 int bool ref
	bits   int    // width for ints
	signed bool
}

func leaves(t types.Type) []leaf {
	switch u := t.Underlying().(type) {
	case *types.Basic:
		switch u.Kind() {
		case types.Bool, types.UntypedBool:
			return []leaf{{"bool", 1, false}}
		case types.Uint8:
			return []leaf{{"u8", 8, false}}
		case types.Int8:
			return []leaf{{"i8", 8, true}}
		case types.Uint16:
			return []leaf{{"u16", 16, false}}
		case types.Int16:
			return []leaf{{"i16", 16, true}}
		case types.Uint32:
			return []leaf{{"u32", 32, false}}
		case types.Int32:
			return []leaf{{"i32", 32, true}}
		case types.Int, types.Int64, types.UntypedInt:
			return []leaf{{"int", 64, true}}
		case types.Uint, types.Uint64, types.Uintptr:
			return []leaf{{"u64", 64, false}}
		case types.UnsafePointer:
			return []leaf{{"ref", 0, false}}
		case types.Float32, types.Float64, types.UntypedFloat:
			return []leaf{{"flt", 0, false}}
		case types.String, types.UntypedString:
			return []leaf{{"ref", 0, false}, {"int", 64, true}}
		case types.UntypedNil:
			return []leaf{{"ref", 0, false}}
		}
	case *types.Pointer:
		return []leaf{{"ref", 0, false}, {"int", 64, true}}
	case *types.Slice:
		return []leaf{{"ref", 0, false}, {"int", 64, true}, {"int", 64, true}, {"int", 64, true}}
	case *types.Map, *types.Chan:
		return []leaf{{"ref", 0, false}}
	case *types.Interface:
		return []leaf{{"int", 64, true}} // opaque id, 0 = nil
	case *types.Signature:
		return []leaf{{"int", 64, true}}
	case *types.Struct:
		var out []leaf
		for i := 0; i < u.NumFields(); i++ {
			out = append(out, leaves(u.Field(i).Type())...)
		}
		return out
	case *types.Array:
		var out []leaf
		e := leaves(u.Elem())
		for i := int64(0); i < u.Len(); i++ {
			out = append(out, e...)
		}
		return out
	case *types.Tuple:
		var out []leaf
		for i := 0; i < u.Len(); i++ {
			out = append(out, leaves(u.At(i).Type())...)
		}
		return out
	}
	panic(fmt.Sprintf("leaves: unsupported type %v (%T)", t, t.Underlying()))
}

func cells(t types.Type) int { return len(leaves(t)) }

func fieldOffset(st *types.Struct, f int) int {
	off := 0
	for i := 0; i < f; i++ {
		off += cells(st.Field(i).Type())
	}
	return off
}

func isAggregate(t types.Type) bool {
	switch t.Underlying().(type) {
	case *types.Struct, *types.Array:
		return true
	}
	return false
}
