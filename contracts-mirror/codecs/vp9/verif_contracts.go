// SPDX-FileCopyrightText: 2023 The Pion community <https://pion.ly>
// SPDX-License-Identifier: MIT

//go:build verif

// Contracts for the VP9 uncompressed-header parser (used by VP9Payloader in
// non-flexible mode). Comment-only: nothing here is compiled into the package
// unless the verif tag is set, and then it adds no code.
package vp9

// The bit reader: pos counts bits from the start of buf. The unchecked readers
// need the bits they consume to exist; hasSpace is what establishes that.
//@ spec hasSpace
//@   requires 0 <= pos
//@   ensures ok [C08,C12]: (result0 == nil) <==> n <= len(buf)*8 - pos
//@ end
//@ spec readFlagUnsafe
//@   requires pos != nil && 0 <= *pos && *pos < 8*len(buf)
//@   modifies pos.*
//@   ensures advanced [C08,C12]: *pos == old(*pos) + 1
//@ end
//@ spec readBitsUnsafe
//@   requires pos != nil && 0 <= *pos && 1 <= n && n <= 64 && *pos + n <= 8*len(buf)
//@   modifies pos.*
//@   loop 0: invariant aligned [C08,C12]: 0 <= n && 0 <= *pos && *pos % 8 == 0 && *pos + n == old(*pos) + old(n)
//@   loop 0: decreases n
//@   ensures advanced [C08,C12]: *pos == old(*pos) + old(n)
//@ end

// Header.Unmarshal never reads outside buf, whatever the bytes are: every
// unchecked read above is preceded by a hasSpace for at least as many bits.
//@ spec (*HeaderColorConfig).unmarshal
//@   requires pos != nil && 0 <= *pos
//@   modifies c.*, pos.*
//@   ensures advanced [C08,C12]: result0 == nil ==> old(*pos) <= *pos && *pos <= 8*len(buf)
//@ end
//@ spec (*HeaderFrameSize).unmarshal
//@   requires pos != nil && 0 <= *pos
//@   modifies s.*, pos.*
//@   ensures advanced [C08,C12]: result0 == nil ==> *pos == old(*pos) + 32 && *pos <= 8*len(buf)
//@ end
//@ spec (*Header).Unmarshal
//@   modifies h.*
//@   ensures key_frame_has_size [C08,C12]: result0 == nil && !h.ShowExistingFrame && !h.NonKeyFrame ==> h.FrameSize != nil && h.ColorConfig != nil
//@ end
