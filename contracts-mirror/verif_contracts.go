// SPDX-FileCopyrightText: 2023 The Pion community <https://pion.ly>
// SPDX-License-Identifier: MIT

//go:build verif

// Contracts (machine-checked by /verif/engine) for package rtp. This file is
// only compiled with the build tag "verif": it contains specification comments
// (//@ lines) and ghost lemma functions that call the real code. Nothing here
// is part of the library.

package rtp

// ===== C17: fixed-size header-extension payload codecs =====

// RFC 6464: one octet, V in the most significant bit, level in the low seven.
//@ spec (AudioLevelExtension).Marshal
//@   ensures range [C17]: (err != nil) <==> a.Level > 127
//@   ensures nobytes [C17]: err != nil ==> len(result0) == 0
//@   ensures layout [C17]: err == nil ==> len(result0) == 1 && fresh(result0) && int(result0[0]) == bv(a.Voice)*128 + int(a.Level)
//@ end
//@ spec (*AudioLevelExtension).Unmarshal
//@   modifies a.*
//@   ensures total [C17]: (err != nil) <==> len(rawData) < 1
//@   ensures short [C17]: len(rawData) < 1 ==> errIs(err, errTooSmall)
//@   ensures fields [C17]: err == nil ==> int(a.Level) == bits(rawData[0], 6, 0) && (a.Voice <==> bits(rawData[0], 7, 7) == 1)
//@ end

// transport-wide-cc-extensions-01: 16-bit sequence number, network order.
//@ spec (TransportCCExtension).Marshal
//@   ensures ok [C17]: err == nil
//@   ensures layout [C17]: len(result0) == 2 && fresh(result0) && be16(result0, 0) == int(t.TransportSequence)
//@ end
//@ spec (*TransportCCExtension).Unmarshal
//@   modifies t.*
//@   ensures total [C17]: (err != nil) <==> len(rawData) < 2
//@   ensures short [C17]: len(rawData) < 2 ==> errIs(err, errTooSmall)
//@   ensures fields [C17]: err == nil ==> int(t.TransportSequence) == be16(rawData, 0)
//@ end

// playout-delay: 12-bit MIN delay, 12-bit MAX delay, three octets.
//@ spec (PlayoutDelayExtension).Marshal
//@   ensures range [C17]: (err != nil) <==> (p.MinDelay > 4095 || p.MaxDelay > 4095)
//@   ensures nobytes [C17]: err != nil ==> len(result0) == 0
//@   ensures layout [C17]: err == nil ==> len(result0) == 3 && fresh(result0) && be24(result0, 0) == int(p.MinDelay)*4096 + int(p.MaxDelay)
//@ end
//@ spec (*PlayoutDelayExtension).Unmarshal
//@   modifies p.*
//@   ensures total [C17]: (err != nil) <==> len(rawData) < 3
//@   ensures short [C17]: len(rawData) < 3 ==> errIs(err, errTooSmall)
//@   ensures fields [C17]: err == nil ==> int(p.MinDelay) == be24(rawData, 0) / 4096 && int(p.MaxDelay) == be24(rawData, 0) % 4096
//@ end

// abs-send-time: 24-bit 6.18 fixed point, network order.
//@ spec (AbsSendTimeExtension).Marshal
//@   ensures ok [C17]: err == nil
//@   ensures layout [C17]: len(result0) == 3 && fresh(result0) && be24(result0, 0) == int(t.Timestamp) % 16777216
//@ end
//@ spec (*AbsSendTimeExtension).Unmarshal
//@   modifies t.*
//@   ensures total [C17]: (err != nil) <==> len(rawData) < 3
//@   ensures short [C17]: len(rawData) < 3 ==> errIs(err, errTooSmall)
//@   ensures fields [C17]: err == nil ==> int(t.Timestamp) == be24(rawData, 0)
//@ end

// abs-capture-time: 64-bit NTP timestamp, optionally followed by a 64-bit
// two's-complement estimated capture clock offset.
//@ spec (AbsCaptureTimeExtension).Marshal
//@   ensures ok [C17]: err == nil
//@   ensures short_form [C17]: t.EstimatedCaptureClockOffset == nil ==> len(result0) == 8 && fresh(result0) && be64(result0, 0) == int(t.Timestamp)
//@   ensures long_form [C17]: t.EstimatedCaptureClockOffset != nil ==> len(result0) == 16 && fresh(result0) && be64(result0, 0) == int(t.Timestamp) && be64(result0, 8) == uint64(int(*t.EstimatedCaptureClockOffset))
//@ end
//@ spec (*AbsCaptureTimeExtension).Unmarshal
//@   modifies t.*
//@   ensures total [C17]: (err != nil) <==> len(rawData) < 8
//@   ensures short [C17]: len(rawData) < 8 ==> errIs(err, errTooSmall)
//@   ensures timestamp [C17]: err == nil ==> int(t.Timestamp) == be64(rawData, 0)
//@   ensures offset_present [C17]: err == nil && len(rawData) >= 16 ==> t.EstimatedCaptureClockOffset != nil && int(*t.EstimatedCaptureClockOffset) == int64(be64(rawData, 8))
//@   ensures offset_absent [C17]: err == nil && len(rawData) < 16 ==> t.EstimatedCaptureClockOffset == nil
//@ end

// Round trips: Unmarshal after Marshal is the identity on every in-range value.
// The lemma bodies call the real functions; the verifier sees only their contracts.

//@ spec verifLemmaAudioLevelRoundTrip
//@   ensures roundtrip [C17]: a.Level <= 127 ==> err == nil && result0.Level == a.Level && result0.Voice == a.Voice
//@ end
func verifLemmaAudioLevelRoundTrip(a AudioLevelExtension, b AudioLevelExtension) (AudioLevelExtension, error) {
	buf, err := a.Marshal()
	if err != nil {
		return b, err
	}
	err = b.Unmarshal(buf)

	return b, err
}
