package main

import (
	"sync"
	"encoding/json"
	"fmt"
	"os"
	"path/filepath"
	"regexp"
	"runtime"
	"sort"
	"strconv"
	"strings"
	"time"
)

type Finding struct {
	Property   string `json:"property"`
	Obligation string `json:"obligation"` // base obligation name (without #k)
	When       string `json:"when"`       // spec predicate over the function's entry state: the failing inputs
	What       string `json:"what"`
	Fixed      string `json:"fixed,omitempty"` // "fixed: property=.. <commit> <what>" entries suppress nothing
}

type KnownFindings struct {
	Findings []*Finding `json:"findings"`
	Fixed    []string   `json:"fixed"`
}

func loadFindings(verifDir string) []*Finding {
	data, err := os.ReadFile(filepath.Join(verifDir, "known_findings.json"))
	if err != nil {
		return nil
	}
	var kf KnownFindings
	if err := json.Unmarshal(data, &kf); err != nil {
		fmt.Println("ENGINE-ERROR known_findings.json:", err)
		os.Exit(2)
	}
	return kf.Findings
}

var ordRe = regexp.MustCompile(`(/\d+)?(#\d+)?$`)

func baseName(n string) string { return ordRe.ReplaceAllString(n, "") }

func hasProp(o *Obl, prop string) bool {
	for _, p := range o.Props {
		if p == prop {
			return true
		}
	}
	return false
}

func main() {
	if len(os.Args) < 2 {
		fmt.Println("usage: rtpverify check <Cxx> [--tier quick|thorough] | list | func <pkg> <ref> | replay <file>")
		os.Exit(2)
	}
	verifDir := os.Getenv("VERIF_DIR")
	if verifDir == "" {
		exe, _ := os.Executable()
		verifDir = filepath.Dir(filepath.Dir(exe))
	}
	repoDir := os.Getenv("VERIF_REPO")
	if repoDir == "" {
		repoDir = "/repo"
	}
	switch os.Args[1] {
	case "check":
		os.Exit(cmdCheck(verifDir, repoDir, os.Args[2:]))
	case "list":
		p, err := loadProg(repoDir, verifDir)
		if err != nil {
			fmt.Println("ENGINE-ERROR", err)
			os.Exit(2)
		}
		var keys []string
		for k := range p.cs.Specs {
			keys = append(keys, k)
		}
		sort.Strings(keys)
		for _, k := range keys {
			fmt.Println(k)
		}
	case "sweep":
		os.Exit(cmdSweep(verifDir, repoDir, os.Args[2:]))
	case "replay":
		os.Exit(cmdReplay(verifDir, repoDir, os.Args[2:]))
	default:
		fmt.Println("unknown command", os.Args[1])
		os.Exit(2)
	}
}

func cmdCheck(verifDir, repoDir string, args []string) int {
	t0 := time.Now()
	prop := args[0]
	tier := os.Getenv("VERIF_TIER")
	only := ""
	updateBaseline := false
	var missing []*Obl
	verbose := false
	keep := false
	for i := 1; i < len(args); i++ {
		switch args[i] {
		case "--tier":
			tier = args[i+1]
			i++
		case "--only":
			only = args[i+1]
			i++
		case "-v":
			verbose = true
		case "--keep":
			keep = true
		case "--update-baseline":
			updateBaseline = true
		}
	}
	if tier == "" {
		tier = "quick"
	}
	seed, _ := strconv.Atoi(os.Getenv("VERIF_SEED"))
	p, err := loadProg(repoDir, verifDir)
	if err != nil {
		// a tree that does not build is not a property violation
		fmt.Println("ENGINE-ERROR cannot load /repo:", err)
		return 2
	}
	p.tier = tier
	tLoad := time.Since(t0)
	findings := loadFindings(verifDir)
	p.findings = findings
	targets := p.targetsFor(prop)
	if len(targets) == 0 {
		fmt.Printf("ENGINE-ERROR no contracts serve property %s\n", prop)
		return 2
	}
	var frs []*FuncResult
	var all []*Obl
	engineErrs := []string{}
	for _, t := range targets {
		if only != "" && !strings.Contains(t.ref, only) {
			continue
		}
		for _, fr := range p.verifyFuncAll(t, findings) {
			frs = append(frs, fr)
			if fr.Err != "" {
				engineErrs = append(engineErrs, fr.Name+": "+fr.Err)
				continue
			}
			for _, o := range fr.Ctx.obls {
				if hasProp(o, prop) {
					all = append(all, o)
				}
			}
		}
	}
	// vacuity guard: every labelled clause recorded in the committed baseline must
	// still generate an obligation (a contract whose target vanished fails, it is not skipped)
	if only == "" {
		blFile := filepath.Join(verifDir, "baseline", prop+".txt")
		have := map[string]bool{}
		for _, o := range all {
			if o.Kind == "ensures" || o.Kind == "inv-init" || o.Kind == "inv-step" || o.Kind == "decreases" || o.Kind == "vacuity" {
				have[baseName(o.Name)] = true
			}
		}
		if updateBaseline {
			var names []string
			for n := range have {
				names = append(names, n)
			}
			sort.Strings(names)
			os.MkdirAll(filepath.Dir(blFile), 0o755)
			os.WriteFile(blFile, []byte(strings.Join(names, "\n")+"\n"), 0o644)
		} else if data, err := os.ReadFile(blFile); err == nil {
			for _, n := range strings.Split(strings.TrimSpace(string(data)), "\n") {
				if n != "" && !have[n] {
					o := &Obl{Name: n, Func: strings.SplitN(n, ":", 2)[0], Kind: "missing", Label: n, Props: []string{prop}, Verdict: "failed-unknown",
						Detail: "contract target missing: the baseline lists this obligation but the current tree generates none for it"}
					missing = append(missing, o)
				}
			}
		} else {
			engineErrs = append(engineErrs, "no baseline file "+blFile+" (run with --update-baseline on the unchanged tree)")
		}
	}
	tGen := time.Since(t0) - tLoad
	tmp, _ := os.MkdirTemp("", "rtpverify-q")
	defer os.RemoveAll(tmp)
	cfg := &solverCfg{quickTO: 20, fallback: 60, seed: seed, workers: (runtime.NumCPU() + 1) / 2, tmp: tmp, keepFiles: keep}
	cfg.failFast = 3
	if tier == "thorough" {
		cfg.quickTO, cfg.fallback = 60, 120
		cfg.failFast = 0
	}
	if keep {
		cfg.tmp = filepath.Join(verifDir, "replays", "queries-"+prop)
		os.MkdirAll(cfg.tmp, 0o755)
	}
	// obligations with recorded findings get a short first attempt: they are expected to fail,
	// and are then re-checked outside the recorded inputs
	kfNames := map[string]bool{}
	for _, f := range findings {
		if f.Property == prop {
			kfNames[f.Obligation] = true
		}
	}
	for _, o := range all {
		if kfNames[baseName(o.Name)] {
			o.shortFirst = true
		}
	}
	pending := all
	for pass := 0; pass < 8 && len(pending) > 0; pass++ {
		dischargeAll(pending, cfg)
		// second chance: obligations that only timed out are retried with the machine to
		// themselves (two at a time, longer limits); solver answers under full load are not final
		var retry []*Obl
		definite := false
		for _, o := range pending {
			if o.Verdict == "failed-unknown" && !o.shortFirst {
				retry = append(retry, o)
			}
			if o.Verdict == "failed-sat" {
				definite = true
			}
		}
		if definite && tier != "thorough" {
			retry = nil // a solver produced a counter-model: the run has failed whatever a retry says
		}
		if len(retry) > 0 && len(retry) <= 6 {
			c2 := *cfg
			c2.workers = 3
			c2.failFast = 0
			c2.quickTO, c2.fallback = cfg.quickTO*2, cfg.fallback
			for _, o := range retry {
				o.Verdict, o.Detail = "", ""
			}
			dischargeAll(retry, &c2)
			for _, o := range retry {
				o.Detail = "second attempt without load: " + o.Detail
			}
		}
		// the quick tier stops early once a few obligations have failed; if the retry
		// rescued every one of them, what was skipped must still be decided
		stillFailed := false
		var skipped []*Obl
		for _, o := range all {
			if strings.HasPrefix(o.Verdict, "failed") && !o.shortFirst {
				stillFailed = true
			}
			if o.Verdict == "not-run" {
				skipped = append(skipped, o)
			}
		}
		if stillFailed || len(skipped) == 0 {
			break
		}
		for _, o := range skipped {
			o.Verdict, o.Detail = "", ""
		}
		pending = skipped
	}

	// classify
	rep := &Report{Prop: prop, Tier: tier, Seed: seed, Start: t0, VerifDir: verifDir, prog: p, frs: frs, known: map[int]bool{}}
	frByName := map[string]*FuncResult{}
	for _, fr := range frs {
		frByName[fr.Name] = fr
	}
	// failed obligations that recorded findings account for are re-checked outside the
	// recorded inputs, all of them concurrently
	type recheck struct {
		o2       *Obl
		matching []int
	}
	rechecks := map[*Obl]*recheck{}
	{
		var wg sync.WaitGroup
		sem := make(chan struct{}, cfg.workers)
		for i, o := range all {
			if !strings.HasPrefix(o.Verdict, "failed") {
				continue
			}
			bn := baseName(o.Name)
			fr := frByName[o.Func]
			var matching []int
			for k, f := range findings {
				if f.Property == prop && f.Obligation == bn {
					matching = append(matching, k)
				}
			}
			if len(matching) == 0 || fr == nil {
				continue
			}
			var extra []string
			okAll := true
			for _, k := range matching {
				term, ok := fr.kf[k]
				if !ok {
					okAll = false
					break
				}
				extra = append(extra, fmt.Sprintf("(assert (not %s))", term))
			}
			if !okAll {
				continue
			}
			o2 := *o
			o2.Verdict, o2.Detail = "", ""
			o2.shortFirst = false
			rc := &recheck{o2: &o2, matching: matching}
			rechecks[o] = rc
			wg.Add(1)
			go func(i int, extra []string) {
				defer wg.Done()
				sem <- struct{}{}
				defer func() { <-sem }()
				discharge(rc.o2, cfg, 100000+i, extra...)
			}(i, extra)
		}
		wg.Wait()
	}
	for _, o := range all {
		switch o.Verdict {
		case "discharged", "ok":
			continue
		case "not-run":
			rep.notRun++
			continue // only possible next to a reported failure (see the loop above); checked below
		case "conflict":
			engineErrs = append(engineErrs, "solvers disagree on "+o.Name+" ("+o.Detail+")")
			continue
		case "vacuous":
			engineErrs = append(engineErrs, "vacuity check failed: "+o.Name+" (preconditions or path contradictory)")
			continue
		}
		// failed: is it accounted for by known findings?
		if rc := rechecks[o]; rc != nil && rc.o2.Verdict == "discharged" {
			o.Verdict = "known"
			for _, k := range rc.matching {
				rep.known[k] = true
			}
			o.Secs += rc.o2.Secs
			o.Backend = rc.o2.Backend
			continue
		}
		rep.failed = append(rep.failed, o)
	}
	rep.failed = append(rep.failed, missing...)
	rep.all = append(all, missing...)
	rep.findings = findings
	rep.engineErrs = engineErrs
	rep.tLoad, rep.tGen = tLoad.Seconds(), tGen.Seconds()
	rep.verbose = verbose
	return rep.finish(cfg)
}

// sweep: zero-annotation safety check of every function of the module (development aid).
func cmdSweep(verifDir, repoDir string, args []string) int {
	p, err := loadProg(repoDir, verifDir)
	if err != nil {
		fmt.Println("ENGINE-ERROR", err)
		return 2
	}
	filter := ""
	if len(args) > 0 {
		filter = args[0]
	}
	var keys []string
	for k, fn := range p.fns {
		if strings.HasPrefix(k, "::") || fn.Blocks == nil || fn.Synthetic != "" || strings.Contains(k, "$") {
			continue
		}
		if strings.Contains(k, "::init") || strings.Contains(k, "verifLemma") {
			continue
		}
		if filter != "" && !strings.Contains(k, filter) {
			continue
		}
		keys = append(keys, k)
	}
	sort.Strings(keys)
	tmp, _ := os.MkdirTemp("", "rtpverify-sweep")
	defer os.RemoveAll(tmp)
	cfg := &solverCfg{quickTO: 5, fallback: 5, seed: 0, workers: runtime.NumCPU() / 2, tmp: tmp}
	for _, k := range keys {
		i := strings.Index(k, "::")
		t := target{k[:i], k[i+2:]}
		fr := p.verifyFunc(t, nil, -1)
		if fr.Err != "" {
			fmt.Printf("%-70s ENGINE-ERROR %s\n", fr.Name, fr.Err)
			continue
		}
		var obls []*Obl
		for _, o := range fr.Ctx.obls {
			if o.Kind == "safety" || o.Kind == "decreases" || o.Kind == "vacuity" {
				obls = append(obls, o)
			}
		}
		dischargeAll(obls, cfg)
		bad := 0
		var names []string
		for _, o := range obls {
			if o.Verdict != "discharged" && o.Verdict != "ok" {
				bad++
				if len(names) < 4 {
					names = append(names, strings.TrimPrefix(o.Name, fr.Name+":")+"@"+o.Pos+"["+o.Verdict+"]")
				}
			}
		}
		loops := 0
		fn := p.lookupFunc(t.pkg, t.ref)
		for _, b := range fn.Blocks {
			if isLoopHeader(b) {
				loops++
			}
		}
		fmt.Printf("%-70s obls=%-4d failed=%-3d loops=%d %s\n", fr.Name, len(obls), bad, loops, strings.Join(names, " "))
	}
	return 0
}
