#!/bin/sh
# Runs every claimed check (quick tier) on the current /repo tree and reports; used before committing evidence.
cd /verif
rc=0
for p in $(python3 -c "import json;print(' '.join(c['property_id'] for c in json.load(open('MANIFEST.json'))['checks']))"); do
  VERIF_SEED=${VERIF_SEED:-1} bin/rtpverify check $p --tier ${1:-quick} > /tmp/runall.$p.out 2>&1; r=$?
  tail -1 /tmp/runall.$p.out
  if [ $r -ne 0 ]; then rc=1; grep -E "^(VIOLATION|ENGINE-ERROR)" /tmp/runall.$p.out | cut -c1-240; fi
  grep "^KNOWN-FINDING" /tmp/runall.$p.out | cut -c1-200
done
exit $rc
