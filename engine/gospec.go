package main

import (
	"fmt"
	"go/constant"
	"go/types"
	"strings"

	"golang.org/x/tools/go/ssa"
)

// goTrans translates a spec clause into a Go boolean expression that is
// evaluated by the replay test on the real function's actual results.
// Spec integers become *big.Int (helpers zz*), spec booleans Go bools,
// program values stay Go values.
type goTrans struct {
	r        *renderer
	fn       *ssa.Function
	prog     *Prog
	params   map[string]types.Type
	results  map[string]types.Type
	alias    map[string]string
	resAlias map[string]string
	bound    map[string]bool
	old      bool
	depth    int
}

type gx struct {
	code string
	kind int // 0 int (*big.Int), 1 bool, 2 Go value
	typ  types.Type
}

const (
	kInt = iota
	kBool
	kVal
)

type transErr struct{ msg string }

func (t *goTrans) fail(format string, a ...any) { panic(transErr{fmt.Sprintf(format, a...)}) }

func (t *goTrans) boolExpr(x *SExpr) (code string, err error) {
	defer func() {
		if r := recover(); r != nil {
			if te, ok := r.(transErr); ok {
				err = fmt.Errorf("%s", te.msg)
				return
			}
			panic(r)
		}
	}()
	return t.asBool(t.tr(x)), nil
}

func (t *goTrans) asInt(g gx) string {
	switch g.kind {
	case kInt:
		return g.code
	case kVal:
		if isIntType(g.typ) {
			return "zzOf(" + g.code + ")"
		}
	}
	t.fail("integer expected: %s", g.code)
	return ""
}

func (t *goTrans) asBool(g gx) string {
	switch g.kind {
	case kBool:
		return g.code
	case kVal:
		if isBoolType(g.typ) {
			return g.code
		}
	}
	t.fail("bool expected: %s", g.code)
	return ""
}

func (t *goTrans) tr(x *SExpr) gx {
	switch x.Op {
	case "num":
		return gx{code: fmt.Sprintf("zzN(%q)", x.Num.String()), kind: kInt}
	case "ident":
		return t.ident(x.Name)
	case "un":
		switch x.Name {
		case "!":
			return gx{code: "!(" + t.asBool(t.tr(x.Args[0])) + ")", kind: kBool}
		case "-":
			return gx{code: "zzSub(zzN(\"0\"), " + t.asInt(t.tr(x.Args[0])) + ")", kind: kInt}
		case "*":
			g := t.tr(x.Args[0])
			pt, ok := g.typ.Underlying().(*types.Pointer)
			if g.kind != kVal || !ok {
				t.fail("deref of non-pointer")
			}
			return gx{code: "(*" + g.code + ")", kind: kVal, typ: pt.Elem()}
		}
	case "bin":
		return t.binary(x)
	case "sel":
		if x.Args[0].Op == "ident" && !t.known(x.Args[0].Name) {
			// package-qualified name
			for _, sp := range t.prog.prog.AllPackages() {
				if sp.Pkg.Name() == x.Args[0].Name {
					if obj := sp.Pkg.Scope().Lookup(x.Name); obj != nil {
						t.r.imports[sp.Pkg.Path()] = sp.Pkg.Name()
						return t.objValue(obj, sp.Pkg.Name()+"."+x.Name)
					}
				}
			}
		}
		g := t.tr(x.Args[0])
		if g.kind != kVal {
			t.fail("selector on non-value")
		}
		base := g.typ
		if pt, ok := base.Underlying().(*types.Pointer); ok {
			base = pt.Elem()
		}
		st, ok := base.Underlying().(*types.Struct)
		if !ok {
			t.fail("selector %s on %s", x.Name, g.typ)
		}
		_, path := fieldPath(st, x.Name)
		if path == nil {
			t.fail("no field %s", x.Name)
		}
		_, ft := pathOffset(st, path)
		return gx{code: g.code + "." + x.Name, kind: kVal, typ: ft}
	case "index":
		g := t.tr(x.Args[0])
		idx := t.asInt(t.tr(x.Args[1]))
		switch u := g.typ.Underlying().(type) {
		case *types.Slice:
			return gx{code: fmt.Sprintf("%s[zzIdx(%s)]", g.code, idx), kind: kVal, typ: u.Elem()}
		case *types.Array:
			return gx{code: fmt.Sprintf("%s[zzIdx(%s)]", g.code, idx), kind: kVal, typ: u.Elem()}
		}
		t.fail("cannot index %s", g.typ)
	case "slice":
		g := t.tr(x.Args[0])
		lo, hi := "", ""
		if x.Args[1] != nil {
			lo = "zzIdx(" + t.asInt(t.tr(x.Args[1])) + ")"
		}
		if x.Args[2] != nil {
			hi = "zzIdx(" + t.asInt(t.tr(x.Args[2])) + ")"
		}
		return gx{code: fmt.Sprintf("%s[%s:%s]", g.code, lo, hi), kind: kVal, typ: g.typ}
	case "forall", "exists":
		return t.quant(x)
	case "call":
		return t.call(x)
	}
	t.fail("cannot translate %s", x)
	return gx{}
}

func (t *goTrans) known(name string) bool {
	if t.bound[name] {
		return true
	}
	if _, ok := t.params[name]; ok {
		return true
	}
	if _, ok := t.alias[name]; ok {
		return true
	}
	if _, ok := t.results[name]; ok {
		return true
	}
	if _, ok := t.resAlias[name]; ok {
		return true
	}
	return false
}

func (t *goTrans) ident(name string) gx {
	switch name {
	case "true", "false":
		return gx{code: name, kind: kBool}
	case "nil":
		return gx{code: "nil", kind: kVal, typ: types.Typ[types.UntypedNil]}
	}
	if t.bound[name] {
		return gx{code: "q_" + name, kind: kInt}
	}
	if a, ok := t.alias[name]; ok {
		name = a
	}
	if typ, ok := t.params[name]; ok {
		if t.old {
			return gx{code: "old_" + name, kind: kVal, typ: typ}
		}
		return gx{code: name, kind: kVal, typ: typ}
	}
	if a, ok := t.resAlias[name]; ok {
		name = a
	}
	if typ, ok := t.results[name]; ok {
		return gx{code: name, kind: kVal, typ: typ}
	}
	if obj := t.fn.Pkg.Pkg.Scope().Lookup(name); obj != nil {
		return t.objValue(obj, name)
	}
	t.fail("unknown identifier %s", name)
	return gx{}
}

func (t *goTrans) objValue(obj types.Object, code string) gx {
	switch o := obj.(type) {
	case *types.Const:
		switch o.Val().Kind() {
		case constant.Int:
			return gx{code: fmt.Sprintf("zzN(%q)", o.Val().ExactString()), kind: kInt}
		case constant.Bool:
			return gx{code: fmt.Sprint(constant.BoolVal(o.Val())), kind: kBool}
		}
	case *types.Var:
		return gx{code: code, kind: kVal, typ: o.Type()}
	}
	t.fail("unsupported package-level object %s", code)
	return gx{}
}

func isNilExpr(x *SExpr) bool { return x.Op == "ident" && x.Name == "nil" }

func (t *goTrans) binary(x *SExpr) gx {
	a, b := x.Args[0], x.Args[1]
	switch x.Name {
	case "&&", "||":
		return gx{code: "(" + t.asBool(t.tr(a)) + " " + x.Name + " " + t.asBool(t.tr(b)) + ")", kind: kBool}
	case "==>":
		return gx{code: "(!(" + t.asBool(t.tr(a)) + ") || " + t.asBool(t.tr(b)) + ")", kind: kBool}
	case "<==>":
		return gx{code: "((" + t.asBool(t.tr(a)) + ") == (" + t.asBool(t.tr(b)) + "))", kind: kBool}
	case "==", "!=":
		var code string
		switch {
		case isNilExpr(b):
			code = "(" + t.tr(a).code + " == nil)"
		case isNilExpr(a):
			code = "(" + t.tr(b).code + " == nil)"
		default:
			ga, gb := t.tr(a), t.tr(b)
			isB := func(g gx) bool { return g.kind == kBool || (g.kind == kVal && isBoolType(g.typ)) }
			isI := func(g gx) bool { return g.kind == kInt || (g.kind == kVal && isIntType(g.typ)) }
			switch {
			case isB(ga) || isB(gb):
				code = "((" + t.asBool(ga) + ") == (" + t.asBool(gb) + "))"
			case isI(ga) && isI(gb):
				code = "(" + t.asInt(ga) + ".Cmp(" + t.asInt(gb) + ") == 0)"
			default:
				code = "reflect.DeepEqual(" + ga.code + ", " + gb.code + ")"
				if types.IsInterface(ga.typ) || isPointer(ga.typ) {
					code = "(" + ga.code + " == " + gb.code + ")"
				}
			}
		}
		if x.Name == "!=" {
			code = "!" + code
		}
		return gx{code: code, kind: kBool}
	case "<", "<=", ">", ">=":
		return gx{code: fmt.Sprintf("(%s.Cmp(%s) %s 0)", t.asInt(t.tr(a)), t.asInt(t.tr(b)), x.Name), kind: kBool}
	case "+":
		return gx{code: "zzAdd(" + t.asInt(t.tr(a)) + ", " + t.asInt(t.tr(b)) + ")", kind: kInt}
	case "-":
		return gx{code: "zzSub(" + t.asInt(t.tr(a)) + ", " + t.asInt(t.tr(b)) + ")", kind: kInt}
	case "*":
		return gx{code: "zzMul(" + t.asInt(t.tr(a)) + ", " + t.asInt(t.tr(b)) + ")", kind: kInt}
	case "/":
		return gx{code: "zzDiv(" + t.asInt(t.tr(a)) + ", " + t.asInt(t.tr(b)) + ")", kind: kInt}
	case "%":
		return gx{code: "zzMod(" + t.asInt(t.tr(a)) + ", " + t.asInt(t.tr(b)) + ")", kind: kInt}
	case "<<":
		return gx{code: fmt.Sprintf("zzMul(%s, zzN(%q))", t.asInt(t.tr(a)), pow2(int(b.Num.Int64())).String()), kind: kInt}
	case ">>":
		return gx{code: fmt.Sprintf("zzDiv(%s, zzN(%q))", t.asInt(t.tr(a)), pow2(int(b.Num.Int64())).String()), kind: kInt}
	case "===":
		ga, gb := t.tr(a), t.tr(b)
		return gx{code: fmt.Sprintf("(len(%s) == len(%s) && zzEqSeq(%s, zzN(\"0\"), %s, zzN(\"0\"), zzOf(len(%s))))", ga.code, gb.code, ga.code, gb.code, ga.code), kind: kBool}
	}
	t.fail("operator %s", x.Name)
	return gx{}
}

func isPointer(t types.Type) bool {
	_, ok := t.Underlying().(*types.Pointer)
	return ok
}

// quantifier: the bounds of each binder are read off the antecedent
func (t *goTrans) quant(x *SExpr) gx {
	body := x.Args[0]
	var conj []*SExpr
	if body.Op == "bin" && body.Name == "==>" {
		conj = flattenAnd(body.Args[0])
	} else if x.Op == "exists" {
		conj = flattenAnd(body)
	}
	nb := map[string]bool{}
	for k := range t.bound {
		nb[k] = true
	}
	saved := t.bound
	defer func() { t.bound = saved }()
	code := ""
	closers := ""
	helper := "zzForall"
	if x.Op == "exists" {
		helper = "zzExists"
	}
	for _, b := range x.Binders {
		var lo, hi string
		for _, cj := range conj {
			if cj.Op != "bin" {
				continue
			}
			l, r := cj.Args[0], cj.Args[1]
			isB := func(e *SExpr) bool { return e.Op == "ident" && e.Name == b }
			t.bound = nb
			switch {
			case cj.Name == "<=" && isB(r) && !mentions(l, b):
				lo = t.asInt(t.tr(l))
			case cj.Name == "<" && isB(r) && !mentions(l, b):
				lo = "zzAdd(" + t.asInt(t.tr(l)) + ", zzN(\"1\"))"
			case cj.Name == "<" && isB(l) && !mentions(r, b):
				hi = t.asInt(t.tr(r))
			case cj.Name == "<=" && isB(l) && !mentions(r, b):
				hi = "zzAdd(" + t.asInt(t.tr(r)) + ", zzN(\"1\"))"
			}
		}
		if lo == "" || hi == "" {
			t.fail("cannot find a finite range for quantified variable %s", b)
		}
		nb[b] = true
		code += fmt.Sprintf("%s(%s, %s, func(q_%s *big.Int) bool { return ", helper, lo, hi, b)
		closers += " })"
	}
	t.bound = nb
	code += t.asBool(t.tr(body)) + closers
	return gx{code: code, kind: kBool}
}

func flattenAnd(x *SExpr) []*SExpr {
	if x.Op == "bin" && x.Name == "&&" {
		return append(flattenAnd(x.Args[0]), flattenAnd(x.Args[1])...)
	}
	return []*SExpr{x}
}

func mentions(x *SExpr, name string) bool {
	if x == nil {
		return false
	}
	if x.Op == "ident" && x.Name == name {
		return true
	}
	for _, a := range x.Args {
		if mentions(a, name) {
			return true
		}
	}
	return false
}

func (t *goTrans) call(x *SExpr) gx {
	arg := func(i int) gx { return t.tr(x.Args[i]) }
	argI := func(i int) string { return t.asInt(t.tr(x.Args[i])) }
	switch x.Name {
	case "old":
		saved := t.old
		t.old = true
		defer func() { t.old = saved }()
		return t.tr(x.Args[0])
	case "len":
		return gx{code: "zzOf(len(" + arg(0).code + "))", kind: kInt}
	case "cap":
		return gx{code: "zzOf(cap(" + arg(0).code + "))", kind: kInt}
	case "off":
		return gx{code: "zzOff(" + arg(0).code + ")", kind: kInt}
	case "sameobj":
		return gx{code: "zzSameObj(" + arg(0).code + ", " + arg(1).code + ")", kind: kBool}
	case "fresh":
		return gx{code: "zzFresh(" + arg(0).code + ")", kind: kBool}
	case "within":
		return gx{code: "zzWithin(" + arg(0).code + ", " + arg(1).code + ")", kind: kBool}
	case "bits":
		return gx{code: fmt.Sprintf("zzBits(%s, %d, %d)", argI(0), x.Args[1].Num.Int64(), x.Args[2].Num.Int64()), kind: kInt}
	case "be16", "be24", "be32", "be64":
		n := map[string]int{"be16": 2, "be24": 3, "be32": 4, "be64": 8}[x.Name]
		return gx{code: fmt.Sprintf("zzBE(%s, %s, %d)", arg(0).code, argI(1), n), kind: kInt}
	case "eqseq":
		return gx{code: fmt.Sprintf("zzEqSeq(%s, %s, %s, %s, %s)", arg(0).code, argI(1), arg(2).code, argI(3), argI(4)), kind: kBool}
	case "errIs":
		return gx{code: "errors.Is(" + arg(0).code + ", " + arg(1).code + ")", kind: kBool}
	case "bv":
		return gx{code: "zzBv(" + t.asBool(arg(0)) + ")", kind: kInt}
	case "ite":
		c := t.asBool(arg(0))
		a, b := arg(1), arg(2)
		if a.kind == kBool || b.kind == kBool || (a.kind == kVal && isBoolType(a.typ)) {
			return gx{code: fmt.Sprintf("zzIte(%s, func() bool { return %s }, func() bool { return %s })", c, t.asBool(a), t.asBool(b)), kind: kBool}
		}
		return gx{code: fmt.Sprintf("zzIte(%s, func() *big.Int { return %s }, func() *big.Int { return %s })", c, t.asInt(a), t.asInt(b)), kind: kInt}
	case "min":
		return gx{code: "zzMin(" + argI(0) + ", " + argI(1) + ")", kind: kInt}
	case "max":
		return gx{code: "zzMax(" + argI(0) + ", " + argI(1) + ")", kind: kInt}
	case "abs":
		return gx{code: "new(big.Int).Abs(" + argI(0) + ")", kind: kInt}
	case "int":
		return gx{code: argI(0), kind: kInt}
	case "uint8", "byte", "uint16", "uint32", "uint64", "int8", "int16", "int32", "int64":
		bits := map[string]int{"uint8": 8, "byte": 8, "uint16": 16, "uint32": 32, "uint64": 64, "int8": 8, "int16": 16, "int32": 32, "int64": 64}[x.Name]
		return gx{code: fmt.Sprintf("zzWrap(%s, %d, %v)", argI(0), bits, strings.HasPrefix(x.Name, "int")), kind: kInt}
	case "samescalars":
		return gx{code: "zzSameScalars(" + arg(0).code + ", " + arg(1).code + ")", kind: kBool}
	case "unixnano":
		return gx{code: "zzOf(" + arg(0).code + ".UnixNano())", kind: kInt}
	}
	if pf, ok := t.prog.cs.Pures[x.Name]; ok && pf.Body != nil {
		if t.depth > 30 {
			t.fail("pure function nesting too deep")
		}
		m := map[string]*SExpr{}
		for i, p := range pf.Params {
			m[p] = x.Args[i]
		}
		t.depth++
		defer func() { t.depth-- }()
		return t.tr(substSpec(pf.Body, m, nil))
	}
	t.fail("spec function %s cannot be evaluated in a replay", x.Name)
	return gx{}
}
