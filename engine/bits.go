package main

import (
	"fmt"
	"math/big"
	"strings"
)

// Bit-slice normal form for unsigned values.
//
// Shifts, masks and ORs by constants are exact but, written as div/mod/+ over
// Int, leave the solver with non-linear-looking goals (be64 of eight
// byte(v>>k) stores equals v). Instead every unsigned term may carry a
// representation as a little-endian list of chunks, value = Σ chunk·2^offset,
// each chunk an Int term known to lie in [0, 2^w). Cutting a chunk at an
// interior bit position introduces two fresh constants lo, hi with the
// defining equation t = lo + hi·2^k (a conservative definitional extension:
// the decomposition exists and is unique). All constant shifts/masks/ORs then
// become list surgery, and what reaches the solver is linear.

type chunk struct {
	t string // "0" for a zero chunk; a decimal literal for constant chunks
	w int
}

type sliceRep []chunk

func (r sliceRep) width() int {
	n := 0
	for _, c := range r {
		n += c.w
	}
	return n
}

func isLit(t string) (*big.Int, bool) {
	if t == "" || t[0] == '(' || t[0] == '-' {
		return nil, false
	}
	v, ok := new(big.Int).SetString(t, 10)
	return v, ok
}

func constRep(v *big.Int, w int) sliceRep {
	// one chunk per maximal run of equal bits would be finer than needed: a single literal chunk is fine
	m := new(big.Int).And(v, new(big.Int).Sub(pow2(w), big.NewInt(1)))
	return sliceRep{{m.String(), w}}
}

// repOf returns the representation of term t, known to lie in [0, 2^w).
func (c *Ctx) repOf(t string, w int) sliceRep {
	if c.raw > 0 {
		return nil
	}
	if v, ok := isLit(t); ok {
		return constRep(v, w)
	}
	if r, ok := c.reps[t]; ok {
		return c.fit(r, w)
	}
	// narrow by the known maximum
	if m := c.getMax(t); m != nil && m.BitLen() < w {
		r := sliceRep{{t, m.BitLen()}}
		if m.BitLen() == 0 {
			r = sliceRep{}
		}
		return c.fit(r, w)
	}
	return sliceRep{{t, w}}
}

// fit pads with zero chunks or truncates to exactly w bits.
func (c *Ctx) fit(r sliceRep, w int) sliceRep {
	have := r.width()
	if have == w {
		return r
	}
	if have < w {
		return append(append(sliceRep{}, r...), chunk{"0", w - have})
	}
	return c.sliceBits(r, 0, w)
}

// split a chunk into [0,k) and [k,w)
func (c *Ctx) splitChunk(ch chunk, k int) (chunk, chunk) {
	if ch.t == "0" {
		return chunk{"0", k}, chunk{"0", ch.w - k}
	}
	if v, ok := isLit(ch.t); ok {
		lo := new(big.Int).And(v, new(big.Int).Sub(pow2(k), big.NewInt(1)))
		hi := new(big.Int).Rsh(v, uint(k))
		return chunk{lo.String(), k}, chunk{hi.String(), ch.w - k}
	}
	key := fmt.Sprintf("%s|%d|%d", ch.t, ch.w, k)
	if p, ok := c.splits[key]; ok {
		return p[0], p[1]
	}
	lo := c.fresh("Int", "lo")
	hi := c.fresh("Int", "hi")
	c.emit(fmt.Sprintf("(assert (and (= %s (+ %s (* %s %s))) (<= 0 %s) (< %s %s) (<= 0 %s) (< %s %s)))",
		ch.t, lo, hi, pow2(k), lo, lo, pow2(k), hi, hi, pow2(ch.w-k)), false)
	c.setMax(lo, new(big.Int).Sub(pow2(k), big.NewInt(1)))
	c.setMax(hi, new(big.Int).Sub(pow2(ch.w-k), big.NewInt(1)))
	a, b := chunk{lo, k}, chunk{hi, ch.w - k}
	c.splits[key] = [2]chunk{a, b}
	// every later use of ch.t sees this refinement (one decomposition tree per term)
	c.refine[ch.t] = sliceRep{a, b}
	return a, b
}

// normalize replaces chunks that have been split before by their parts.
func (c *Ctx) normalize(r sliceRep) sliceRep {
	var out sliceRep
	changed := false
	for _, ch := range r {
		if rr, ok := c.refine[ch.t]; ok && ch.t != "0" {
			sub := c.normalize(rr)
			if sub.width() != ch.w {
				sub = c.fit(sub, ch.w)
			}
			out = append(out, sub...)
			changed = true
		} else {
			out = append(out, ch)
		}
	}
	if !changed {
		return r
	}
	return out
}

// cutAt makes bit position k a chunk boundary.
func (c *Ctx) cutAt(r sliceRep, k int) sliceRep {
	r = c.normalize(r)
	pos := 0
	for i, ch := range r {
		if pos == k {
			return r
		}
		if k < pos+ch.w {
			a, b := c.splitChunk(ch, k-pos)
			out := append(sliceRep{}, r[:i]...)
			out = append(out, a, b)
			return append(out, r[i+1:]...)
		}
		pos += ch.w
	}
	return r
}

func (c *Ctx) sliceBits(r sliceRep, lo, hi int) sliceRep {
	if lo >= hi {
		return sliceRep{}
	}
	r = c.cutAt(c.cutAt(r, lo), hi)
	var out sliceRep
	pos := 0
	for _, ch := range r {
		if pos >= lo && pos+ch.w <= hi {
			out = append(out, ch)
		}
		pos += ch.w
	}
	return out
}

// termOf builds (and registers) the Int term of a representation.
func (c *Ctx) termOf(r sliceRep) string {
	// merge adjacent zero chunks, drop trailing zeros for the bound
	var parts []string
	pos := 0
	maxv := new(big.Int)
	lowz := -1
	allLit := true
	litSum := new(big.Int)
	for _, ch := range r {
		if ch.t != "0" && ch.w > 0 {
			if v, ok := isLit(ch.t); ok {
				sh := new(big.Int).Lsh(v, uint(pos))
				litSum.Add(litSum, sh)
				if v.Sign() != 0 {
					parts = append(parts, sh.String())
					maxv.Add(maxv, sh)
					if lowz < 0 {
						lowz = pos + int(v.TrailingZeroBits())
					}
				}
			} else {
				allLit = false
				if pos == 0 {
					parts = append(parts, ch.t)
				} else {
					parts = append(parts, fmt.Sprintf("(* %s %s)", ch.t, pow2(pos)))
				}
				m := c.getMax(ch.t)
				if m == nil || m.BitLen() > ch.w {
					m = new(big.Int).Sub(pow2(ch.w), big.NewInt(1))
				}
				maxv.Add(maxv, new(big.Int).Lsh(m, uint(pos)))
				if lowz < 0 {
					lowz = pos
				}
			}
		}
		pos += ch.w
	}
	var t string
	switch {
	case len(parts) == 0:
		return "0"
	case allLit:
		return litSum.String()
	case len(parts) == 1:
		t = c.I("%s", parts[0])
	default:
		t = c.I("(+ %s)", strings.Join(parts, " "))
	}
	if c.raw == 0 {
		c.setMax(t, maxv)
		if lowz > 0 {
			c.lowz[t] = lowz
		}
		if _, ok := c.reps[t]; !ok {
			c.reps[t] = r
		}
	}
	return t
}

func zeros(n int) sliceRep {
	if n <= 0 {
		return sliceRep{}
	}
	return sliceRep{{"0", n}}
}

// shr/shl/and/or on representations of width w
func (c *Ctx) repShr(r sliceRep, k, w int) sliceRep {
	if k >= w {
		return zeros(w)
	}
	return append(c.sliceBits(r, k, w), zeros(k)...)
}

func (c *Ctx) repShl(r sliceRep, k, w int) sliceRep {
	if k >= w {
		return zeros(w)
	}
	return append(zeros(k), c.sliceBits(r, 0, w-k)...)
}

func (c *Ctx) repAndConst(r sliceRep, mask *big.Int, w int) sliceRep {
	var out sliceRep
	i := 0
	for i < w {
		j := i
		bit := mask.Bit(i)
		for j < w && mask.Bit(j) == bit {
			j++
		}
		if bit == 1 {
			out = append(out, c.sliceBits(r, i, j)...)
		} else {
			out = append(out, zeros(j-i)...)
		}
		i = j
	}
	return out
}

// align cuts both representations at each other's boundaries.
func (c *Ctx) align(a, b sliceRep) (sliceRep, sliceRep) {
	pos := 0
	for _, ch := range a {
		pos += ch.w
		b = c.cutAt(b, pos)
	}
	pos = 0
	for _, ch := range b {
		pos += ch.w
		a = c.cutAt(a, pos)
	}
	return a, b
}

// repOr: bitwise or/xor/add where no two non-zero chunks overlap; ok=false otherwise.
// Constant chunks are cut at the boundaries of their zero runs first so that a
// constant like 0x80 overlaps only one bit.
func (c *Ctx) repDisjointMerge(a, b sliceRep) (sliceRep, bool) {
	a, b = c.cutConstRuns(a), c.cutConstRuns(b)
	a, b = c.align(a, b)
	if len(a) != len(b) {
		return nil, false
	}
	out := make(sliceRep, len(a))
	for i := range a {
		switch {
		case a[i].t == "0":
			out[i] = b[i]
		case b[i].t == "0":
			out[i] = a[i]
		default:
			return nil, false
		}
	}
	return out, true
}

func (c *Ctx) cutConstRuns(r sliceRep) sliceRep {
	var out sliceRep
	for _, ch := range r {
		v, ok := isLit(ch.t)
		if !ok || ch.t == "0" || ch.w <= 1 {
			out = append(out, ch)
			continue
		}
		i := 0
		for i < ch.w {
			j := i
			bit := v.Bit(i)
			for j < ch.w && v.Bit(j) == bit {
				j++
			}
			if bit == 0 {
				out = append(out, chunk{"0", j - i})
			} else {
				out = append(out, chunk{new(big.Int).Sub(pow2(j-i), big.NewInt(1)).String(), j - i})
			}
			i = j
		}
	}
	return out
}

func isPow2(v *big.Int) (int, bool) {
	if v.Sign() <= 0 {
		return 0, false
	}
	k := int(v.TrailingZeroBits())
	if v.BitLen() == k+1 {
		return k, true
	}
	return 0, false
}

// nzMask: which bit positions of a representation may be non-zero.
func nzMask(r sliceRep) *big.Int {
	m := new(big.Int)
	pos := 0
	for _, ch := range r {
		if ch.t != "0" {
			if v, ok := isLit(ch.t); ok {
				m.Or(m, new(big.Int).Lsh(v, uint(pos)))
			} else {
				m.Or(m, new(big.Int).Lsh(new(big.Int).Sub(pow2(ch.w), big.NewInt(1)), uint(pos)))
			}
		}
		pos += ch.w
	}
	return m
}

// unsignedFast tries the bit-slice normal form for an unsigned operation of
// width w; ok=false means "use the arithmetic encoding".
func (c *Ctx) unsignedFast(op string, a, b string, w int) (string, bool) {
	if c.raw > 0 {
		return "", false
	}
	kb, bLit := isLit(b)
	switch op {
	case ">>":
		if bLit {
			return c.termOf(c.repShr(c.repOf(a, w), int(kb.Int64()), w)), true
		}
	case "<<":
		if bLit {
			return c.termOf(c.repShl(c.repOf(a, w), int(kb.Int64()), w)), true
		}
	case "&":
		if bLit {
			return c.termOf(c.repAndConst(c.repOf(a, w), kb, w)), true
		}
		if ka, ok := isLit(a); ok {
			return c.termOf(c.repAndConst(c.repOf(b, w), ka, w)), true
		}
	case "&^":
		if bLit {
			mask := new(big.Int).AndNot(new(big.Int).Sub(pow2(w), big.NewInt(1)), kb)
			return c.termOf(c.repAndConst(c.repOf(a, w), mask, w)), true
		}
	case "|", "^", "+":
		ra, rb := c.repOf(a, w), c.repOf(b, w)
		if new(big.Int).And(nzMask(ra), nzMask(rb)).Sign() == 0 {
			if r, ok := c.repDisjointMerge(ra, rb); ok {
				return c.termOf(r), true
			}
		}
	case "*":
		if bLit {
			if k, ok := isPow2(kb); ok {
				return c.termOf(c.repShl(c.repOf(a, w), k, w)), true
			}
		}
		if ka, ok := isLit(a); ok {
			if k, ok := isPow2(ka); ok {
				return c.termOf(c.repShl(c.repOf(b, w), k, w)), true
			}
		}
	case "/":
		if bLit {
			if k, ok := isPow2(kb); ok {
				return c.termOf(c.repShr(c.repOf(a, w), k, w)), true
			}
		}
	case "%":
		if bLit {
			if k, ok := isPow2(kb); ok {
				return c.termOf(c.fit(c.sliceBits(c.repOf(a, w), 0, k), w)), true
			}
		}
	}
	return "", false
}
